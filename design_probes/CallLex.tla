---------------------------- MODULE CallLex ----------------------------
\* Model of the comma rewrite in src/parser.rs:204-259 at symbol level.
\* Input symbols: operand tokens, operator tokens, "open", "close", "comma".  Output: tokens without commas.
EXTENDS FlatImpl
CONSTANT StackFix    \* FALSE = single pending slot as pinned; TRUE = candidate repair with a stack of pending calls

TComma == [t |-> "comma", v |-> 0]

\* find_op_of_comma: scanning right-to-left, first operator token seen while the running paren count is 1
RECURSIVE FindOp(_, _, _)
FindOp(res, j, cnt) ==
  IF j = 0 THEN 0
  ELSE LET c == cnt + (CASE res[j].t = "close" -> -1 [] res[j].t = "open" -> 1 [] OTHER -> 0)
       IN IF res[j].t = "op" /\ c = 1 THEN j ELSE FindOp(res, j - 1, c)

\* state: res, pend (sequence of open-paren counters of pending calls; single slot = length <= 1), err
L0 == [res |-> <<>>, pend |-> <<>>, err |-> "none"]
CloseIfDue(s) ==   \* after an operand / closing paren: emit the extra ')' when the innermost pending call is back at count 0
  IF Len(s.pend) > 0 /\ s.pend[Len(s.pend)] = 0
  THEN [s EXCEPT !.res = Append(@, TClose), !.pend = SubSeq(@, 1, Len(@) - 1)]
  ELSE s
Bump(s, d) == IF Len(s.pend) > 0 THEN [s EXCEPT !.pend[Len(s.pend)] = @ + d] ELSE s
RECURSIVE CloseAll(_)
CloseAll(s) == LET s2 == CloseIfDue(s) IN IF s2 = s THEN s ELSE IF StackFix THEN CloseAll(Bump(s2, -1)) ELSE s2

LStep(s, sym) ==
  CASE sym.t = "open"  -> [Bump(s, 1) EXCEPT !.res = Append(@, TOpen)]
    [] sym.t = "close" -> LET s1 == [Bump(s, -1) EXCEPT !.res = Append(@, TClose)] IN
                          IF StackFix THEN CloseAll(s1) ELSE CloseIfDue(s1)
    [] sym.t = "comma" -> LET k == FindOp(s.res, Len(s.res), 0) IN
                          IF k = 0 THEN [s EXCEPT !.err = "no-op-for-comma"]
                          ELSE LET op == s.res[k]
                                   r1 == [s.res EXCEPT ![k] = TOpen]
                                   r2 == r1 \o <<TClose, op, TOpen>>
                               IN IF StackFix THEN [s EXCEPT !.res = r2, !.pend = Append(@, 1)]
                                  ELSE [s EXCEPT !.res = r2, !.pend = <<1>>]
    [] sym.t \in {"num", "var"} -> CloseIfDue([s EXCEPT !.res = Append(@, sym)])
    [] OTHER -> [s EXCEPT !.res = Append(@, sym)]     \* operator token

RECURSIVE LRun(_, _, _)
LRun(s, syms, i) == IF i > Len(syms) \/ s.err # "none" THEN s ELSE LRun(LStep(s, syms[i]), syms, i + 1)
CallLex(syms) == LRun(L0, syms, 1)

Balanced(toks) ==
  LET RECURSIVE B(_, _)
      B(i, c) == IF c < 0 THEN FALSE ELSE IF i > Len(toks) THEN c = 0
                 ELSE B(i + 1, c + (CASE toks[i].t = "open" -> 1 [] toks[i].t = "close" -> -1 [] OTHER -> 0))
  IN B(1, 0)

\* rendering of a tree where every binary node with op in CallOps is written op(l, r)
CallOps == {"b", "d"}
RECURSIVE RenderC(_)
RenderC(t) ==
  CASE t.k = "num" -> <<TNum(t.v)>>
    [] t.k = "var" -> <<TVar(t.n)>>
    [] t.k = "un"  -> <<TOp(t.op)>> \o (IF t.a.k = "bin" /\ t.a.op \notin CallOps THEN Par(RenderC(t.a)) ELSE RenderC(t.a))
    [] t.k = "bin" ->
        IF t.op \in CallOps THEN <<TOp(t.op), TOpen>> \o RenderC(t.l) \o <<TComma>> \o RenderC(t.r) \o <<TClose>>
        ELSE LET p == OpsT[t.op].prio
                 IsInfix(x) == x.k = "bin" /\ x.op \notin CallOps
                 L == IF IsInfix(t.l) /\ PrioOf(t.l) < p THEN Par(RenderC(t.l)) ELSE RenderC(t.l)
                 R == IF IsInfix(t.r) /\ PrioOf(t.r) <= p THEN Par(RenderC(t.r)) ELSE RenderC(t.r)
             IN L \o <<TOp(t.op)>> \o R
=============================================================================
