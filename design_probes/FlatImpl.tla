---------------------------- MODULE FlatImpl ----------------------------
\* Implementation-shaped model of src/expression/flat.rs: make_expression, prioritized_indices_flat, eval_binary
EXTENDS Ref
CONSTANT BumpGuard   \* FALSE = code as pinned; TRUE = candidate repair of the commutative bump

DEPTH_STEP == 1000

IsOpTok(toks, j) == toks[j].t = "op"
IsUnaryAt(toks, j) == IsOpTok(toks, j) /\ ~IsBinAt(toks, j)
\* iter_subsequent_unaries(end): maximal run of unary operator tokens ending at `e`
RECURSIVE RunStart(_, _)
RunStart(toks, e) == IF e >= 1 /\ IsUnaryAt(toks, e) THEN RunStart(toks, e - 1) ELSE e + 1
Unaries(toks, e) == LET s == RunStart(toks, e) IN [j \in 1..(e - s + 1) |-> toks[s + j - 1].v]
NodeUn(toks, i) == IF i > 1 /\ IsUnaryAt(toks, i - 1) THEN Unaries(toks, i - 1) ELSE <<>>

\* index (in ops) of the rightmost lowest-priority operator among the trailing ops with prio >= depth*1000; 0 if none
RECURSIVE TrailStart(_, _, _)
TrailStart(ops, depth, j) == IF j >= 1 /\ ops[j].prio >= depth * DEPTH_STEP THEN TrailStart(ops, depth, j - 1) ELSE j + 1
LowestTrailing(ops, depth) ==
  LET s == TrailStart(ops, depth, Len(ops)) IN
  IF s > Len(ops) THEN 0
  ELSE CHOOSE j \in s..Len(ops) : \A k \in s..Len(ops) : ops[j].prio < ops[k].prio \/ (ops[j].prio = ops[k].prio /\ j >= k)

St0 == [i |-> 1, depth |-> 0, ust |-> <<>>, nodes |-> <<>>, ops |-> <<>>, err |-> "none"]

Step(toks, s) ==
  LET tk == toks[s.i] IN
  CASE tk.t = "op" ->
        IF IsBinAt(toks, s.i)
        THEN [s EXCEPT !.i = @ + 1,
                       !.ops = Append(@, [name |-> tk.v, prio |-> OpsT[tk.v].prio + s.depth * DEPTH_STEP, comm |-> OpsT[tk.v].comm, un |-> <<>>])]
        ELSE IF s.i + 1 > Len(toks) THEN [s EXCEPT !.err = "panic-oob"]
        ELSE IF toks[s.i + 1].t = "close" THEN [s EXCEPT !.err = "unary-before-close"]
        ELSE IF toks[s.i + 1].t = "open" THEN [s EXCEPT !.i = @ + 1, !.ust = Append(@, <<s.i, s.depth>>)]
        ELSE [s EXCEPT !.i = @ + 1]
    [] tk.t \in {"num", "var"} ->
        [s EXCEPT !.i = @ + 1, !.nodes = Append(@, [kind |-> tk.t, v |-> tk.v, un |-> NodeUn(toks, s.i)])]
    [] tk.t = "open" -> [s EXCEPT !.i = @ + 1, !.depth = @ + 1]
    [] tk.t = "close" ->
        LET lo == LowestTrailing(s.ops, s.depth)
            top == IF Len(s.ust) > 0 THEN s.ust[Len(s.ust)] ELSE <<0, -1>>
            pops == top[2] = s.depth - 1
            add == IF pops THEN Unaries(toks, top[1]) ELSE <<>>
            ust2 == IF pops THEN SubSeq(s.ust, 1, Len(s.ust) - 1) ELSE s.ust
        IN IF lo = 0
           THEN IF Len(s.nodes) = 0 THEN [s EXCEPT !.err = "no-node-between-parens"]
                ELSE [s EXCEPT !.i = @ + 1, !.depth = @ - 1, !.ust = ust2,
                               !.nodes[Len(s.nodes)].un = add \o @]
           ELSE [s EXCEPT !.i = @ + 1, !.depth = @ - 1, !.ust = ust2, !.ops[lo].un = add \o @]

RECURSIVE Build(_, _)
Build(toks, s) == IF s.err # "none" \/ s.i > Len(toks) THEN s ELSE Build(toks, Step(toks, s))

\* prioritized_indices_flat: stable sort, descending key
\* nearest operator to the left of j whose priority is not strictly higher (0 if none)
RECURSIVE LeftRun(_, _, _)
LeftRun(b, j, k) == IF k = 0 THEN 0 ELSE IF b.ops[k].prio > b.ops[j].prio THEN LeftRun(b, j, k - 1) ELSE k
Key(b, j) ==
  LET l == LeftRun(b, j, j - 1)
      bump == b.ops[j].comm /\ b.nodes[j].kind = "num" /\ b.nodes[j + 1].kind = "num"
              /\ (BumpGuard => /\ Len(b.ops[j].un) = 0
                               /\ (l = 0 \/ b.ops[l].prio < b.ops[j].prio \/ b.ops[l].name = b.ops[j].name))
  IN b.ops[j].prio * 10 + (IF bump THEN 5 ELSE 0)
Before(b, j1, j2) == Key(b, j1) > Key(b, j2) \/ (Key(b, j1) = Key(b, j2) /\ j1 < j2)
Order(b) == LET n == Len(b.ops) IN
  [p \in 1..n |-> CHOOSE j \in 1..n : Cardinality({k \in 1..n : Before(b, k, j)}) = p - 1]

RECURSIVE ApplyUn(_, _)
ApplyUn(un, x) == IF Len(un) = 0 THEN x ELSE Un(un[1], ApplyUn(Tail(un), x))
Leaf(nd) == ApplyUn(nd.un, IF nd.kind = "num" THEN Num(nd.v) ELSE Var(nd.v))

\* eval_binary with an abstract tracker (alive flags)
RECURSIVE Reduce(_, _, _, _, _)
Reduce(b, ord, p, nums, alive) ==
  IF p > Len(ord) THEN nums[1]
  ELSE LET idx == ord[p]
           n1 == CHOOSE j \in 1..idx : alive[j] /\ \A k \in (j + 1)..idx : ~alive[k]
           n2 == CHOOSE j \in (idx + 1)..Len(nums) : alive[j] /\ \A k \in (idx + 1)..(j - 1) : ~alive[k]
           v  == ApplyUn(b.ops[idx].un, Bin(b.ops[idx].name, nums[n1], nums[n2]))
       IN Reduce(b, ord, p + 1, [nums EXCEPT ![n1] = v], [alive EXCEPT ![n2] = FALSE])

FlatEval(toks) ==
  LET b == Build(toks, St0) IN
  IF b.err # "none" THEN [k |-> "err", why |-> b.err]
  ELSE IF Len(b.ops) + 1 # Len(b.nodes) THEN [k |-> "err", why |-> "count"]
  ELSE Reduce(b, Order(b), 1, [j \in 1..Len(b.nodes) |-> Leaf(b.nodes[j])], [j \in 1..Len(b.nodes) |-> TRUE])
=============================================================================
