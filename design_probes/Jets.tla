---------------------------- MODULE Jets ----------------------------
EXTENDS Integers, Sequences, TLC
P == 32749        \* prime, P*P < 2^31
K == 4            \* number of coefficients kept: c0 + c1 t + c2 t^2 + c3 t^3
M(x) == x % P
FAdd(a, b) == M(a + b)
FSub(a, b) == M(a - b + P)
FMul(a, b) == M(a * b)
RECURSIVE FPow(_, _)
FPow(a, n) == IF n = 0 THEN 1 ELSE IF n % 2 = 0 THEN LET h == FPow(a, n \div 2) IN FMul(h, h) ELSE FMul(a, FPow(a, n - 1))
FInv(a) == FPow(a, P - 2)           \* a # 0
FRat(n, d) == FMul(M(n + P * (IF n < 0 THEN ((-n) \div P + 1) ELSE 0)), FInv(M(d)))

JConst(c) == [i \in 1..K |-> IF i = 1 THEN c ELSE 0]
JVar(c)   == [i \in 1..K |-> IF i = 1 THEN c ELSE IF i = 2 THEN 1 ELSE 0]
JAdd(a, b) == [i \in 1..K |-> FAdd(a[i], b[i])]
JSub(a, b) == [i \in 1..K |-> FSub(a[i], b[i])]
JNeg(a) == [i \in 1..K |-> FSub(0, a[i])]
RECURSIVE Conv(_, _, _, _)
Conv(a, b, i, j) == IF j > i THEN 0 ELSE FAdd(FMul(a[j], b[i - j + 1]), Conv(a, b, i, j + 1))
JMul(a, b) == [i \in 1..K |-> Conv(a, b, i, 1)]
JScale(c, a) == [i \in 1..K |-> FMul(c, a[i])]
\* inverse: b0 = 1/a0 ; b_n = -1/a0 * sum_{j=1..n} a_j b_{n-j}
RECURSIVE InvCoef(_, _, _)
RECURSIVE InvSum(_, _, _, _, _)
InvSum(a, inv0, n, j, b) == IF j > n THEN 0 ELSE FAdd(FMul(a[j + 1], b[n - j + 1]), InvSum(a, inv0, n, j + 1, b))
InvCoef(a, inv0, b) == IF Len(b) = K THEN b
                       ELSE LET n == Len(b) IN InvCoef(a, inv0, Append(b, FMul(FSub(0, inv0), InvSum(a, inv0, n, 1, b))))
JInv(a) == LET inv0 == FInv(a[1]) IN InvCoef(a, inv0, <<inv0>>)
JDiv(a, b) == JMul(a, JInv(b))
\* compose f(u) for u with zero constant term, f given by coefficient sequence c (length K) : Horner
RECURSIVE Horner(_, _, _)
Horner(c, u, i) == IF i = K THEN JConst(c[K]) ELSE JAdd(JConst(c[i]), JMul(u, Horner(c, u, i + 1)))
JComp(c, u) == Horner(c, u, 1)
ZeroC(a) == [i \in 1..K |-> IF i = 1 THEN 0 ELSE a[i]]
\* Taylor coefficient tables at base points
SinC == <<0, 1, 0, FRat(-1, 6)>>
CosC == <<1, 0, FRat(-1, 2), 0>>
ExpC == <<1, 1, FRat(1, 2), FRat(1, 6)>>
Ln1C == <<0, 1, FRat(-1, 2), FRat(1, 3)>>     \* ln(1+u)
JSin(a) == JComp(SinC, a)     \* requires a[1] = 0
JCos(a) == JComp(CosC, a)
JExp(a) == JComp(ExpC, a)
JLn(a)  == JComp(Ln1C, ZeroC(a))   \* requires a[1] = 1
\* derivative of a jet (loses one order): K-1 significant coefficients
JDer(a) == [i \in 1..K |-> IF i < K THEN FMul(i, a[i + 1]) ELSE 0]
Trunc(a) == [i \in 1..K |-> IF i < K THEN a[i] ELSE 0]

\* test: f(x) = sin(x)^2 * exp(x) / (1 + x) at x = 0 + t ; f' = (2 sin cos exp + sin^2 exp)/(1+x) - sin^2 exp/(1+x)^2
X == JVar(0)
F == JDiv(JMul(JMul(JSin(X), JSin(X)), JExp(X)), JAdd(JConst(1), X))
Fp == JSub(JDiv(JAdd(JMul(JScale(2, JMul(JSin(X), JCos(X))), JExp(X)), JMul(JMul(JSin(X), JSin(X)), JExp(X))), JAdd(JConst(1), X)),
           JDiv(JMul(JMul(JSin(X), JSin(X)), JExp(X)), JMul(JAdd(JConst(1), X), JAdd(JConst(1), X))))
FpWrong == JSub(JDiv(JAdd(JMul(JScale(2, JMul(JSin(X), JSin(X))), JExp(X)), JMul(JMul(JSin(X), JSin(X)), JExp(X))), JAdd(JConst(1), X)),
           JDiv(JMul(JMul(JSin(X), JSin(X)), JExp(X)), JMul(JAdd(JConst(1), X), JAdd(JConst(1), X))))
ASSUME PrintT(<<"F", F, "dF", JDer(F), "Fp", Trunc(Fp), "equal", JDer(F) = Trunc(Fp), "wrong-equal", JDer(F) = Trunc(FpWrong)>>)
ASSUME PrintT(<<"lnexp", JLn(JExp(X)) = X, JMul(JInv(JAdd(JConst(3), X)), JAdd(JConst(3), X))>>)
=============================================================================
