INIT Init
NEXT Next
INVARIANT Ok
POSTCONDITION Post
CHECK_DEADLOCK FALSE
