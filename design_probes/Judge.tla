---- MODULE Judge ----
EXTENDS Ref, Json, IOUtils
Rec == ndJsonDeserialize(IOEnv.TRACE)
VARIABLE i
Init == i = 1
Next == i <= Len(Rec) /\ i' = i + 1
Ok == i <= Len(Rec) => Norm(Rec[i].obs) = Norm(RefParse(Rec[i].toks))
Post == TLCGet("stats").diameter - 1 = Len(Rec)
====
