CONSTANT N = 2
INIT Init
NEXT Next
INVARIANT Emit
CHECK_DEADLOCK FALSE
