---- MODULE MC ----
EXTENDS Ref, Json
CONSTANT N
VARIABLES tree, done
Init == tree \in Trees(1, N) /\ done = FALSE
Next == done = FALSE /\ done' = TRUE /\ UNCHANGED tree
RoundTrip == RefParse(Render(tree)) = tree
NormIdem == Norm(tree) = Norm(tree)
Emit == done => PrintT(ToJson([toks |-> Render(tree), expect |-> tree]))
====
