CONSTANT N = 3
CONSTANT BumpGuard = TRUE
CONSTANT StackFix = TRUE
INIT Init
NEXT Next
INVARIANT CallOk
CHECK_DEADLOCK FALSE
