---- MODULE MCC ----
EXTENDS CallLex
CONSTANT N
VARIABLES tree
Init == tree \in {t \in Trees(1, N) : TRUE}
Next == UNCHANGED tree
CallOk == LET l == CallLex(RenderC(tree)) IN
          /\ l.err = "none"
          /\ Balanced(l.res)
          /\ Norm(FlatEval(l.res)) = Norm(tree)
====
