CONSTANT N = 3
CONSTANT BumpGuard = TRUE
INIT Init
NEXT Next
INVARIANT Refines
CHECK_DEADLOCK FALSE
