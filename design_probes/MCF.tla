---- MODULE MCF ----
EXTENDS FlatImpl
CONSTANT N
VARIABLES tree
Init == tree \in Trees(1, N)
Next == UNCHANGED tree
Refines == Norm(FlatEval(Render(tree))) = Norm(tree)
====
