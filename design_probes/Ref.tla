---------------------------- MODULE Ref ----------------------------
EXTENDS Integers, Sequences, FiniteSets, TLC, Bags

\* Operator table: name -> [bin, un, prio, comm]
OpsT == [ a |-> [bin |-> TRUE,  un |-> FALSE, prio |-> 0, comm |-> TRUE ],
          b |-> [bin |-> TRUE,  un |-> FALSE, prio |-> 0, comm |-> FALSE],
          c |-> [bin |-> TRUE,  un |-> FALSE, prio |-> 1, comm |-> TRUE ],
          d |-> [bin |-> TRUE,  un |-> FALSE, prio |-> 1, comm |-> FALSE],
          m |-> [bin |-> TRUE,  un |-> TRUE,  prio |-> 0, comm |-> FALSE],
          u |-> [bin |-> FALSE, un |-> TRUE,  prio |-> 0, comm |-> FALSE] ]
BinNames == {n \in DOMAIN OpsT : OpsT[n].bin}
UnNames  == {n \in DOMAIN OpsT : OpsT[n].un}

\* ---- trees
Num(v) == [k |-> "num", v |-> v]
Var(n) == [k |-> "var", n |-> n]
Un(o, t) == [k |-> "un", op |-> o, a |-> t]
Bin(o, l, r) == [k |-> "bin", op |-> o, l |-> l, r |-> r]

\* ---- tokens
TNum(v) == [t |-> "num", v |-> v]
TVar(n) == [t |-> "var", v |-> n]
TOp(n)  == [t |-> "op",  v |-> n]
TOpen   == [t |-> "open", v |-> 0]
TClose  == [t |-> "close", v |-> 0]

\* an operator token is binary iff it can be binary and (cannot be unary or left token is operand/close)
IsBinAt(toks, i) ==
  LET o == OpsT[toks[i].v] IN
  IF o.bin /\ ~o.un THEN TRUE
  ELSE IF o.bin /\ o.un THEN i > 1 /\ toks[i-1].t \in {"num", "var", "close"}
  ELSE FALSE

\* depth before token i
RECURSIVE DepthAt(_, _)
DepthAt(toks, i) == IF i = 1 THEN 0
                    ELSE DepthAt(toks, i-1) + (CASE toks[i-1].t = "open" -> 1 [] toks[i-1].t = "close" -> -1 [] OTHER -> 0)

\* index of the operator applied last among top-level binary operators: lowest prio, rightmost
TopBin(toks) == {i \in 1..Len(toks) : toks[i].t = "op" /\ IsBinAt(toks, i) /\ DepthAt(toks, i) = 0}
LastApplied(toks) ==
  LET S == TopBin(toks) IN
  CHOOSE i \in S : \A j \in S : \/ OpsT[toks[i].v].prio < OpsT[toks[j].v].prio
                               \/ (OpsT[toks[i].v].prio = OpsT[toks[j].v].prio /\ i >= j)

RECURSIVE RefParse(_)
RefParse(toks) ==
  IF TopBin(toks) # {} THEN
     LET i == LastApplied(toks) IN Bin(toks[i].v, RefParse(SubSeq(toks, 1, i-1)), RefParse(SubSeq(toks, i+1, Len(toks))))
  ELSE IF toks[1].t = "op" THEN Un(toks[1].v, RefParse(Tail(toks)))
  ELSE IF toks[1].t = "open" THEN RefParse(SubSeq(toks, 2, Len(toks)-1))
  ELSE IF toks[1].t = "num" THEN Num(toks[1].v)
  ELSE Var(toks[1].v)

\* ---- minimal rendering of a tree (parens only where needed)
PrioOf(t) == IF t.k = "bin" THEN OpsT[t.op].prio ELSE 1000
RECURSIVE Render(_)
Par(s) == <<TOpen>> \o s \o <<TClose>>
Render(t) ==
  CASE t.k = "num" -> <<TNum(t.v)>>
    [] t.k = "var" -> <<TVar(t.n)>>
    [] t.k = "un"  -> <<TOp(t.op)>> \o (IF t.a.k = "bin" THEN Par(Render(t.a)) ELSE Render(t.a))
    [] t.k = "bin" ->
        LET p == OpsT[t.op].prio
            L == IF PrioOf(t.l) < p THEN Par(Render(t.l)) ELSE Render(t.l)
            R == IF PrioOf(t.r) <= p THEN Par(Render(t.r)) ELSE Render(t.r)
        IN L \o <<TOp(t.op)>> \o R

\* ---- AC normal form: flatten same-op chains of commutative ops into bags
RECURSIVE Norm(_)
RECURSIVE Args(_, _)
Args(o, t) == IF t.k = "bin" /\ t.op = o THEN Args(o, t.l) (+) Args(o, t.r) ELSE SetToBag({Norm(t)})
Norm(t) ==
  CASE t.k \in {"num", "var"} -> t
    [] t.k = "un" -> Un(t.op, Norm(t.a))
    [] t.k = "bin" -> IF OpsT[t.op].comm THEN [k |-> "ac", op |-> t.op, args |-> Args(t.op, t)]
                      ELSE Bin(t.op, Norm(t.l), Norm(t.r))

\* ---- all trees with n leaves; leaf i is num i or var i
RECURSIVE Trees(_, _)
Trees(lo, hi) ==
  IF lo = hi THEN {Num(lo), Var(lo)} \cup {Un(o, x) : o \in UnNames, x \in {Num(lo), Var(lo)}}
  ELSE LET B == UNION { {Bin(o, l, r) : o \in BinNames, l \in Trees(lo, m), r \in Trees(m+1, hi)} : m \in lo..(hi-1) }
       IN B \cup {Un("u", x) : x \in B}
=============================================================================
