CONSTANT BumpGuard = TRUE
INIT Init
NEXT Next
INVARIANT Ok
CHECK_DEADLOCK FALSE
