---- MODULE Rnd ----
EXTENDS FlatImpl, Json, IOUtils
Rec == ndJsonDeserialize(IOEnv.TRACE)
VARIABLE i
Init == i = 1
Next == i <= Len(Rec) /\ i' = i + 1
Ok == i <= Len(Rec) => (Norm(FlatEval(Rec[i].toks)) = Norm(RefParse(Rec[i].toks)) \/ PrintT(<<"DISAGREE", Rec[i].s>>))
====
