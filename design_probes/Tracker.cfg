CONSTANTS W = 12  NW = 1  N = 12  SingleWord = TRUE
INIT Init
NEXT Next
INVARIANT Agree
INVARIANT BitsMeanDead
CHECK_DEADLOCK FALSE
