//! Session recorder: executes a history of calculus operations (conversion, operator application,
//! substitution, differentiation, printing) on a pool of expressions over `Sym` and records the abstract
//! projection (form, variables, denotation, printed text) of every step.  No verdicts here.
use crate::dynops::{self, intern};
use crate::sym::{reset_intern, Sym, SymMatcher, SymOps};
use crate::term::{cps, uncps};
use crate::util::{for_each_record, guarded, Opts};
use exmex::prelude::*;
use exmex::{Calculate, DeepEx, ExResult, Express};
use serde_json::{json, Value};
use std::io::Write;

type F = FlatEx<Sym, SymOps, SymMatcher>;
type D = DeepEx<'static, Sym, SymOps, SymMatcher>;

#[derive(Clone)]
enum Ex {
    Flat(F),
    Deep(D),
}

fn err(msg: &str) -> exmex::ExError {
    exmex::ExError::new(msg)
}

impl Ex {
    fn form(&self) -> &'static str {
        match self {
            Ex::Flat(_) => "flat",
            Ex::Deep(_) => "deep",
        }
    }
    fn vars(&self) -> Vec<String> {
        match self {
            Ex::Flat(e) => e.var_names().to_vec(),
            Ex::Deep(e) => e.var_names().to_vec(),
        }
    }
    fn text(&self) -> String {
        match self {
            Ex::Flat(e) => e.unparse().to_string(),
            Ex::Deep(e) => e.unparse().to_string(),
        }
    }
    fn den(&self) -> ExResult<Sym> {
        let vals: Vec<Sym> = self.vars().iter().map(|n| Sym::Var(n.clone())).collect();
        match self {
            Ex::Flat(e) => e.eval(&vals),
            Ex::Deep(e) => e.eval(&vals),
        }
    }
    fn deep(&self) -> ExResult<D> {
        match self {
            Ex::Flat(e) => e.clone().to_deepex(),
            Ex::Deep(e) => Ok(e.clone()),
        }
    }
    fn flat(&self) -> ExResult<F> {
        match self {
            Ex::Flat(e) => Ok(e.clone()),
            Ex::Deep(e) => F::from_deepex(e.clone()),
        }
    }
    /// result in the form of `like`
    fn like(d: D, like: &Ex) -> ExResult<Ex> {
        Ok(match like {
            Ex::Flat(_) => Ex::Flat(F::from_deepex(d)?),
            Ex::Deep(_) => Ex::Deep(d),
        })
    }
}

fn parse(form: &str, text: &'static str) -> ExResult<Ex> {
    Ok(match form {
        "deep" => Ex::Deep(D::parse(text)?),
        "flat_wo" => Ex::Flat(F::parse_wo_compile(text)?),
        _ => Ex::Flat(F::parse(text)?),
    })
}

fn name_of(v: &Value) -> &'static str {
    intern(&uncps(v))
}

fn std_op(op: &str, a: D, b: Option<D>) -> ExResult<D> {
    let need = || b.clone().ok_or_else(|| err("second operand missing"));
    match op {
        "add" => a + need()?,
        "sub" => a - need()?,
        "mul" => a * need()?,
        "div" => a / need()?,
        "pow" => a.pow(need()?),
        "neg" => -a,
        "abs" => a.abs(), "sin" => a.sin(), "cos" => a.cos(), "tan" => a.tan(), "sinh" => a.sinh(), "cosh" => a.cosh(),
        "tanh" => a.tanh(), "asin" => a.asin(), "acos" => a.acos(), "atan" => a.atan(), "signum" => a.signum(),
        "log" => a.log(), "log2" => a.log2(), "log10" => a.log10(), "ln" => a.ln(), "round" => a.round(),
        "floor" => a.floor(), "ceil" => a.ceil(), "exp" => a.exp(), "sqrt" => a.sqrt(), "cbrt" => a.cbrt(),
        "fract" => a.fract(), "trunc" => a.trunc(),
        _ => Err(err("unknown std op")),
    }
}

fn idx(step: &Value, key: &str, pool: &[Option<Ex>]) -> ExResult<usize> {
    let i = step[key].as_u64().ok_or_else(|| err("index missing"))? as usize;
    if i == 0 || i > pool.len() || pool[i - 1].is_none() {
        return Err(err("script error: pool index out of range or refers to a failed entry"));
    }
    Ok(i - 1)
}

fn run_step(step: &Value, pool_opt: &[Option<Ex>]) -> ExResult<Ex> {
    let pool_owned: Vec<Ex> = pool_opt.iter().map(|e| e.clone().unwrap_or_else(|| Ex::Deep(D::default()))).collect();
    let pool: &[Ex] = &pool_owned;
    let act = step["act"].as_str().unwrap_or("");
    match act {
        "to_deep" => Ok(Ex::Deep(pool[idx(step, "i", pool_opt)?].deep()?)),
        "to_flat" => Ok(Ex::Flat(pool[idx(step, "i", pool_opt)?].flat()?)),
        "op_un" => {
            let e = &pool[idx(step, "i", pool_opt)?];
            let name = name_of(&step["name"]);
            Ok(match e {
                Ex::Flat(f) => Ex::Flat(f.clone().operate_unary(name)?),
                Ex::Deep(d) => Ex::Deep(Calculate::operate_unary(d.clone(), name)?),
            })
        }
        "op_bin" => {
            let e = &pool[idx(step, "i", pool_opt)?];
            let o = &pool[idx(step, "j", pool_opt)?];
            let name = name_of(&step["name"]);
            Ok(match e {
                Ex::Flat(f) => Ex::Flat(f.clone().operate_binary(o.flat()?, name)?),
                Ex::Deep(d) => Ex::Deep(Calculate::operate_binary(d.clone(), o.deep()?, name)?),
            })
        }
        "std" => {
            let e = &pool[idx(step, "i", pool_opt)?];
            let b = if step.get("j").is_some() { Some(pool[idx(step, "j", pool_opt)?].deep()?) } else { None };
            Ex::like(std_op(step["op"].as_str().unwrap_or(""), e.deep()?, b)?, e)
        }
        "subs" => {
            let e = &pool[idx(step, "i", pool_opt)?];
            let map: Vec<(String, usize)> = step["map"]
                .as_array()
                .ok_or_else(|| err("map missing"))?
                .iter()
                .map(|m| Ok((uncps(&m[0]), idx(&json!({"j": m[1]}), "j", pool_opt)?)))
                .collect::<ExResult<_>>()?;
            Ok(match e {
                Ex::Flat(f) => {
                    let mut sub = |v: &str| map.iter().find(|(n, _)| n == v).and_then(|(_, j)| pool[*j].flat().ok());
                    Ex::Flat(f.clone().subs(&mut sub)?)
                }
                Ex::Deep(d) => {
                    let mut sub = |v: &str| map.iter().find(|(n, _)| n == v).and_then(|(_, j)| pool[*j].deep().ok());
                    Ex::Deep(Calculate::subs(d.clone(), &mut sub)?)
                }
            })
        }
        "partial" | "partial_nth" | "partial_iter" => {
            let e = &pool[idx(step, "i", pool_opt)?];
            let k = step["k"].as_u64().unwrap_or(0) as usize;
            let n = step["n"].as_u64().unwrap_or(1) as usize;
            let ks: Vec<usize> = step["ks"].as_array().map(|a| a.iter().map(|x| x.as_u64().unwrap() as usize).collect()).unwrap_or_default();
            Ok(match e {
                Ex::Flat(f) => Ex::Flat(match act {
                    "partial" => f.clone().partial(k)?,
                    "partial_nth" => f.clone().partial_nth(k, n)?,
                    _ => f.clone().partial_iter(ks.iter().copied())?,
                }),
                Ex::Deep(d) => Ex::Deep(match act {
                    "partial" => d.clone().partial(k)?,
                    "partial_nth" => d.clone().partial_nth(k, n)?,
                    _ => d.clone().partial_iter(ks.iter().copied())?,
                }),
            })
        }
        "partial_relaxed" => {
            let e = &pool[idx(step, "i", pool_opt)?];
            let k = step["k"].as_u64().unwrap_or(0) as usize;
            let mode = match step["mode"].as_str().unwrap_or("error") {
                "per_operand" => exmex::MissingOpMode::PerOperand,
                "none" => exmex::MissingOpMode::None,
                _ => exmex::MissingOpMode::Error,
            };
            Ok(match e {
                Ex::Flat(f) => Ex::Flat(f.clone().partial_relaxed(k, mode)?),
                Ex::Deep(d) => Ex::Deep(d.clone().partial_relaxed(k, mode)?),
            })
        }
        "reparse" => {
            let e = &pool[idx(step, "i", pool_opt)?];
            let text: &'static str = intern(&e.text());
            parse(e.form(), text)
        }
        "serde" => {
            let f = pool[idx(step, "i", pool_opt)?].flat()?;
            let s = serde_json::to_string(&f).map_err(|e| err(&format!("serialize: {e}")))?;
            let back: F = serde_json::from_str(intern(&s)).map_err(|e| err(&format!("deserialize: {e}")))?;
            Ok(Ex::Flat(back))
        }
        _ => Err(err("script error: unknown action")),
    }
}

fn project(r: Result<ExResult<Ex>, String>) -> (Value, Option<Ex>) {
    match r {
        Err(_) => (json!({"outcome": "panic"}), None),
        Ok(Err(e)) => {
            let m: String = e.msg().chars().filter(|c| c.is_ascii() && *c != '"' && *c != '\\').take(100).collect();
            (json!({"outcome": "err", "script_error": m.starts_with("script error"), "msg": m}), None)
        }
        Ok(Ok(e)) => {
            let den = guarded(|| e.den());
            let (outcome, den) = match den {
                Err(_) => ("panic", json!({"k": "none"})),
                Ok(Err(_)) => ("eval_err", json!({"k": "none"})),
                Ok(Ok(d)) => ("ok", d.to_json()),
            };
            let vars: Vec<Value> = e.vars().iter().map(|v| cps(v)).collect();
            (json!({"outcome": outcome, "form": e.form(), "vars": vars, "den": den, "text": cps(&e.text())}), Some(e))
        }
    }
}

pub fn main(args: &[String]) -> i32 {
    let o = Opts::parse(args);
    let mut logf: Option<std::fs::File> = o.get("tlc-log").map(|p| std::fs::File::create(p).expect("log file"));
    let stdin = std::io::stdin();
    let stdout = std::io::stdout();
    let mut out = std::io::BufWriter::new(stdout.lock());
    let (mut n, mut steps, mut panics) = (0u64, 0u64, 0u64);
    let mut default_table: Option<Value> = None;
    for_each_record(stdin.lock(), logf.as_mut().map(|f| f as &mut dyn Write), |rec| {
        if rec.get("seeds").is_none() {
            if let Some(t) = rec.get("table") {
                dynops::set_table(dynops::table_from_json(t));
                default_table = Some(t.clone());
                let _ = writeln!(out, "{}", json!({"table": t}));
            }
            return;
        }
        if let Some(t) = rec.get("table") {
            dynops::set_table(dynops::table_from_json(t));
        }
        n += 1;
        reset_intern();
        let mut pool: Vec<Option<Ex>> = Vec::new();
        let mut seeds_out = Vec::new();
        for s in rec["seeds"].as_array().unwrap() {
            let text: &'static str = intern(&uncps(&s["text"]));
            let form = s["form"].as_str().unwrap_or("flat").to_string();
            let (mut j, e) = project(guarded(|| parse(&form, text)));
            j["text_in"] = s["text"].clone();
            j["form_in"] = json!(form);
            seeds_out.push(j);
            // a seed that does not parse still occupies its slot so that indices stay aligned
            pool.push(e);
        }
        let mut steps_out = Vec::new();
        for st in rec["steps"].as_array().unwrap() {
            steps += 1;
            exmex::verif::start_recording();
            let r = guarded(|| run_step(st, &pool));
            let events = exmex::verif::take_events();
            let (mut j, e) = project(r);
            if j["outcome"] == "panic" {
                panics += 1;
            }
            j["n_partial_events"] = json!(events.iter().filter(|e| e.contains("partial_deepex")).count());
            let mut m = st.as_object().unwrap().clone();
            m.insert("res".into(), j);
            steps_out.push(Value::Object(m));
            // every step occupies a pool slot (a failed step an empty one) so that later indices are stable
            pool.push(e);
        }
        let mut m = serde_json::Map::new();
        m.insert("case".into(), json!(n));
        m.insert("seeds".into(), Value::Array(seeds_out));
        m.insert("steps".into(), Value::Array(steps_out));
        if rec.get("final").and_then(|f| f.as_bool()).unwrap_or(false) {
            // the end state of the session: every pool entry observed once more (entries are immutable values: what a later
            // call did to a clone must not show in the original)
            let fin: Vec<Value> = pool.iter().map(|e| match e {
                None => json!({"outcome": "none"}),
                Some(e) => {
                    let e2 = e.clone();
                    project(guarded(move || -> ExResult<Ex> { Ok(e2) })).0
                }
            }).collect();
            m.insert("final".into(), Value::Array(fin));
        }
        for k in ["table", "point", "tag"] {
            if let Some(t) = rec.get(k) {
                m.insert(k.into(), t.clone());
            }
        }
        let _ = writeln!(out, "{}", Value::Object(m));
    });
    let _ = out.flush();
    let summary = json!({"cases": n, "runs": steps, "panics": panics});
    if let Some(p) = o.get("summary") {
        std::fs::write(p, summary.to_string()).expect("summary");
    } else {
        eprintln!("{summary}");
    }
    0
}
