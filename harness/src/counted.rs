//! `Counted`: a `Term` that remembers which passed-in value it came from and counts how often that
//! value is cloned (C15).
use crate::dynops::{table, NSLOTS};
use crate::term::{Term, TermMatcher};
use crate::util::{for_each_record, guarded, Opts};
use exmex::prelude::*;
use exmex::{BinOp, MakeOperators, Operator};
use serde_json::{json, Value};
use std::cell::RefCell;
use std::io::Write;
use std::str::FromStr;

thread_local! {
    static CLONES: RefCell<Vec<u64>> = const { RefCell::new(Vec::new()) };
}

#[derive(Debug, Default)]
pub struct Counted {
    pub t: Term,
    pub id: Option<usize>,
}
impl Clone for Counted {
    fn clone(&self) -> Self {
        if let Some(i) = self.id {
            CLONES.with(|c| {
                let mut c = c.borrow_mut();
                if c.len() <= i {
                    c.resize(i + 1, 0);
                }
                c[i] += 1;
            });
        }
        Counted { t: self.t.clone(), id: self.id }
    }
}
// neutral elements for the shortcuts of the deep form (`e + g*0` adds g to the variable list without an occurrence)
impl From<u8> for Counted {
    fn from(n: u8) -> Self {
        Counted { t: Term::Num(n.to_string()), id: None }
    }
}
impl PartialEq for Counted {
    fn eq(&self, o: &Self) -> bool {
        self.t == o.t
    }
}
impl FromStr for Counted {
    type Err = String;
    fn from_str(s: &str) -> Result<Self, Self::Err> {
        Ok(Counted { t: Term::from_str(s)?, id: None })
    }
}

fn cb<const I: usize>(a: Counted, b: Counted) -> Counted {
    Counted { t: Term::Bin(I, Box::new(a.t), Box::new(b.t)), id: None }
}
fn cu<const I: usize>(a: Counted) -> Counted {
    Counted { t: Term::Un(I, Box::new(a.t)), id: None }
}
macro_rules! slots {
    ($f:ident, $($i:literal),*) => { [$($f::<$i>),*] };
}
static CBIN: [fn(Counted, Counted) -> Counted; NSLOTS] = slots!(cb, 0,1,2,3,4,5,6,7,8,9,10,11,12,13,14,15,16,17,18,19,20,21,22,23,24,25,26,27,28,29,30,31,32,33,34,35,36,37,38,39,40,41,42,43,44,45,46,47,48,49,50,51,52,53,54,55,56,57,58,59,60,61,62,63,64,65,66,67,68,69,70,71,72,73,74,75,76,77,78,79,80,81,82,83,84,85,86,87,88,89,90,91,92,93,94,95);
static CUN: [fn(Counted) -> Counted; NSLOTS] = slots!(cu, 0,1,2,3,4,5,6,7,8,9,10,11,12,13,14,15,16,17,18,19,20,21,22,23,24,25,26,27,28,29,30,31,32,33,34,35,36,37,38,39,40,41,42,43,44,45,46,47,48,49,50,51,52,53,54,55,56,57,58,59,60,61,62,63,64,65,66,67,68,69,70,71,72,73,74,75,76,77,78,79,80,81,82,83,84,85,86,87,88,89,90,91,92,93,94,95);

/// what `one` needs from a counting data type
pub trait Cnt: Clone + Default + std::fmt::Debug + PartialEq + FromStr<Err = String> + From<u8> {
    fn mk(t: Term, id: Option<usize>) -> Self;
    fn term(&self) -> &Term;
}
impl Cnt for Counted {
    fn mk(t: Term, id: Option<usize>) -> Self { Counted { t, id } }
    fn term(&self) -> &Term { &self.t }
}
/// the same behind one pointer: `size_of::<CountedB>() == size_of::<usize>()`, a clone is still a deep, counted clone.
/// A library that picks "copy instead of move" by the size of the handle is visible through this type only.
#[derive(Debug, Default, Clone, PartialEq)]
pub struct CountedB(Box<Counted>);
impl From<u8> for CountedB {
    fn from(n: u8) -> Self { CountedB(Box::new(Counted::from(n))) }
}
impl FromStr for CountedB {
    type Err = String;
    fn from_str(s: &str) -> Result<Self, Self::Err> { Ok(CountedB(Box::new(Counted::from_str(s)?))) }
}
impl Cnt for CountedB {
    fn mk(t: Term, id: Option<usize>) -> Self { CountedB(Box::new(Counted { t, id })) }
    fn term(&self) -> &Term { &self.0.t }
}
fn cbb<const I: usize>(a: CountedB, b: CountedB) -> CountedB {
    CountedB(Box::new(cb::<I>(*a.0, *b.0)))
}
fn cub<const I: usize>(a: CountedB) -> CountedB {
    CountedB(Box::new(cu::<I>(*a.0)))
}
static CBINB: [fn(CountedB, CountedB) -> CountedB; NSLOTS] = slots!(cbb, 0,1,2,3,4,5,6,7,8,9,10,11,12,13,14,15,16,17,18,19,20,21,22,23,24,25,26,27,28,29,30,31,32,33,34,35,36,37,38,39,40,41,42,43,44,45,46,47,48,49,50,51,52,53,54,55,56,57,58,59,60,61,62,63,64,65,66,67,68,69,70,71,72,73,74,75,76,77,78,79,80,81,82,83,84,85,86,87,88,89,90,91,92,93,94,95);
static CUNB: [fn(CountedB) -> CountedB; NSLOTS] = slots!(cub, 0,1,2,3,4,5,6,7,8,9,10,11,12,13,14,15,16,17,18,19,20,21,22,23,24,25,26,27,28,29,30,31,32,33,34,35,36,37,38,39,40,41,42,43,44,45,46,47,48,49,50,51,52,53,54,55,56,57,58,59,60,61,62,63,64,65,66,67,68,69,70,71,72,73,74,75,76,77,78,79,80,81,82,83,84,85,86,87,88,89,90,91,92,93,94,95);
#[derive(Clone, Debug)]
pub struct DynOpsCB;
impl MakeOperators<CountedB> for DynOpsCB {
    fn make<'a>() -> Vec<Operator<'a, CountedB>> {
        table()
            .iter()
            .enumerate()
            .map(|(i, o)| {
                let b = BinOp { apply: CBINB[i], prio: o.prio, is_commutative: o.comm };
                if o.constant {
                    Operator::make_constant(o.name, CountedB::mk(Term::Const(i), None))
                } else if o.bin && o.un {
                    Operator::make_bin_unary(o.name, b, CUNB[i])
                } else if o.bin {
                    Operator::make_bin(o.name, b)
                } else {
                    Operator::make_unary(o.name, CUNB[i])
                }
            })
            .collect()
    }
}

#[derive(Clone, Debug)]
pub struct DynOpsC;
impl MakeOperators<Counted> for DynOpsC {
    fn make<'a>() -> Vec<Operator<'a, Counted>> {
        table()
            .iter()
            .enumerate()
            .map(|(i, o)| {
                let b = BinOp { apply: CBIN[i], prio: o.prio, is_commutative: o.comm };
                if o.constant {
                    Operator::make_constant(o.name, Counted { t: Term::Const(i), id: None })
                } else if o.bin && o.un {
                    Operator::make_bin_unary(o.name, b, CUN[i])
                } else if o.bin {
                    Operator::make_bin(o.name, b)
                } else {
                    Operator::make_unary(o.name, CUN[i])
                }
            })
            .collect()
    }
}


fn vals<C: Cnt>(names: &[String]) -> Vec<C> {
    names.iter().enumerate().map(|(i, n)| C::mk(Term::Var(n.clone()), Some(i))).collect()
}
fn reset(n: usize) {
    CLONES.with(|c| *c.borrow_mut() = vec![0; n]);
}
fn counts(n: usize) -> Vec<u64> {
    CLONES.with(|c| {
        let c = c.borrow();
        (0..n).map(|i| c.get(i).copied().unwrap_or(0)).collect()
    })
}

fn one<C: Cnt, OF: MakeOperators<C> + Clone + std::fmt::Debug>(text: &str, compile: bool, ghost: &[String]) -> Value {
    // the ghost construction is part of the script, not of what is observed
    let with_ghosts = |e: FlatEx<C, OF, TermMatcher>| -> exmex::ExResult<FlatEx<C, OF, TermMatcher>> {
        if ghost.is_empty() {
            return Ok(e);
        }
        let mut d = e.to_deepex()?;
        for g in ghost {
            let gtext: &'static str = Box::leak(format!("{{{g}}}").into_boxed_str());
            let zero = (FlatEx::<C, OF, TermMatcher>::parse(gtext)?.to_deepex()? * FlatEx::<C, OF, TermMatcher>::parse("0")?.to_deepex()?)?;
            d = (d + zero)?;
        }
        FlatEx::<C, OF, TermMatcher>::from_deepex(d)
    };
    let r = guarded(|| -> exmex::ExResult<Value> {
        let e = if compile { FlatEx::<C, OF, TermMatcher>::parse(text)? } else { FlatEx::<C, OF, TermMatcher>::parse_wo_compile(text)? };
        let e = match with_ghosts(e) {
            Ok(e) => e,
            Err(_) => return Ok(json!({"outcome": "script"})),
        };
        let names = e.var_names().to_vec();
        let n = names.len();
        let v: Vec<C> = vals(&names);
        reset(n);
        let borrowed = e.eval(&v)?;
        let c_borrow = counts(n);
        reset(n);
        let by_vec = e.eval_vec(vals::<C>(&names))?;
        let c_vec = counts(n);
        reset(n);
        let by_iter = e.eval_iter(vals::<C>(&names).into_iter())?;
        let c_iter = counts(n);
        Ok(json!({"outcome": "ok", "vars": names.iter().map(|s| crate::term::cps(s)).collect::<Vec<_>>(),
                  "borrow": borrowed.term().to_json(), "vec": by_vec.term().to_json(), "iter": by_iter.term().to_json(),
                  "clones_borrow": c_borrow, "clones_vec": c_vec, "clones_iter": c_iter,
                  "hole": by_vec.term().has_hole() || by_iter.term().has_hole() || borrowed.term().has_hole()}))
    });
    match r {
        Err(_) => json!({"outcome": "panic"}),
        Ok(Err(_)) => json!({"outcome": "err"}),
        Ok(Ok(v)) => v,
    }
}

pub fn main(args: &[String]) -> i32 {
    let o = Opts::parse(args);
    let forward_all = o.has("forward-all");
    let auto_ghosts = o.has("ghosts");
    let mut logf: Option<std::fs::File> = o.get("tlc-log").map(|p| std::fs::File::create(p).expect("log file"));
    let stdin = std::io::stdin();
    let stdout = std::io::stdout();
    let mut out = std::io::BufWriter::new(stdout.lock());
    let (mut n, mut runs, mut ident, mut fwd) = (0u64, 0u64, 0u64, 0u64);
    for_each_record(stdin.lock(), logf.as_mut().map(|f| f as &mut dyn Write), |rec| {
        if let Some(t) = rec.get("table") {
            crate::dynops::set_table(crate::dynops::table_from_json(t));
            if rec.get("text").is_none() {
                let _ = writeln!(out, "{}", json!({"table": t}));
                return;
            }
        }
        let Some(tv) = rec.get("text") else { return };
        n += 1;
        let text = crate::term::uncps(tv);
        let ghost_sets: Vec<Vec<String>> = match rec.get("ghost") {
            Some(g) => vec![g.as_array().map(|a| a.iter().map(crate::term::uncps).collect()).unwrap_or_default()],
            None if auto_ghosts => vec![vec![], vec!["A0".to_string()], vec!["zz".to_string()], vec!["A0".to_string(), "zz".to_string()]],
            None => vec![vec![]],
        };
        for (ghost, compile) in ghost_sets.iter().flat_map(|g| [(g, false), (g, true)]) {
            if compile && !ghost.is_empty() {
                continue; // the deep round trip compiles anyway
            }
            runs += 1;
            crate::term::reset_intern();
            let mut obs = one::<Counted, DynOpsC>(&text, compile, ghost);
            // the same through the pointer-sized counting type: everything observed must be identical
            crate::term::reset_intern();
            let obs_b = one::<CountedB, DynOpsCB>(&text, compile, ghost);
            if obs_b != obs {
                // forwarded as a separate run so that the judge sees what the small type did
                obs = obs_b;
                obs.as_object_mut().unwrap().insert("small_type".into(), json!(true));
            }
            // identical to the TLC expectation: all three values equal the expected tree and the
            // clone counts equal the model's
            let same = obs["outcome"] == "ok"
                && !compile
                && ghost.is_empty()
                && rec.get("den").map(|d| *d == obs["borrow"] && *d == obs["vec"] && *d == obs["iter"]).unwrap_or(false)
                && rec.get("clones").map(|c| *c == obs["clones_vec"] && *c == obs["clones_iter"]).unwrap_or(false);
            if same {
                ident += 1;
            }
            if !same || forward_all {
                fwd += 1;
                let mut m = obs.as_object().unwrap().clone();
                m.insert("case".into(), json!(fwd));
                m.insert("compiled".into(), json!(compile));
                m.insert("text".into(), tv.clone());
                m.insert("ghost".into(), json!(ghost.iter().map(|g| crate::term::cps(g)).collect::<Vec<_>>()));
                if let Some(t) = rec.get("table") {
                    m.insert("table".into(), t.clone());
                }
                let _ = writeln!(out, "{}", Value::Object(m));
            }
        }
    });
    let _ = out.flush();
    let summary = json!({"cases": n, "runs": runs, "identical": ident, "forwarded": fwd});
    if let Some(p) = o.get("summary") {
        std::fs::write(p, summary.to_string()).expect("summary");
    } else {
        eprintln!("{summary}");
    }
    0
}
