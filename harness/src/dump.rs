//! Model conformance: the structure of the real FlatEx / DeepEx (verif_dump hook) in the shape the
//! implementation-shaped TLA+ models predict.  A difference is MODEL-DRIFT, never a violation.
use crate::dynops;
use crate::expr::{Deep, Flat};
use crate::term::uncps;
use crate::util::{for_each_record, guarded, Opts};
use exmex::prelude::*;
use serde_json::{json, Value};
use std::io::Write;

fn plus1(v: &Value) -> Value {
    Value::Array(v.as_array().map(|a| a.iter().map(|x| json!(x.as_u64().unwrap_or(0) + 1)).collect()).unwrap_or_default())
}
fn flat_shape(dump: &str) -> Value {
    let d: Value = serde_json::from_str(dump).unwrap_or(json!({}));
    let nodes: Vec<Value> = d["nodes"].as_array().map(|a| a.iter().map(|n| json!({"k": n["k"], "un": plus1(&n["un"])})).collect()).unwrap_or_default();
    let ops: Vec<Value> = d["ops"].as_array().map(|a| a.iter().map(|o| json!({"idx": o["idx"].as_u64().unwrap_or(0) + 1, "prio": o["prio"], "un": plus1(&o["un"])})).collect()).unwrap_or_default();
    json!({"nodes": nodes, "ops": ops, "prio": plus1(&d["prio_indices"])})
}
fn deep_shape(d: &Value) -> Value {
    let nodes: Vec<Value> = d["nodes"].as_array().map(|a| a.iter().map(|n| if n["k"] == "expr" { json!({"k": "expr", "e": deep_shape(&n["e"])}) } else { json!({"k": n["k"]}) }).collect()).unwrap_or_default();
    let ops: Vec<Value> = d["ops"].as_array().map(|a| a.iter().map(|o| json!(o["idx"].as_u64().unwrap_or(0) + 1)).collect()).unwrap_or_default();
    json!({"nodes": nodes, "ops": ops, "un": plus1(&d["un"])})
}

pub fn main(args: &[String]) -> i32 {
    let o = Opts::parse(args);
    let mut logf: Option<std::fs::File> = o.get("tlc-log").map(|p| std::fs::File::create(p).expect("log file"));
    let stdin = std::io::stdin();
    let mut out = std::io::BufWriter::new(std::io::stdout().lock());
    let (mut n, mut same, mut fwd) = (0u64, 0u64, 0u64);
    for_each_record(stdin.lock(), logf.as_mut().map(|f| f as &mut dyn Write), |rec| {
        if let Some(t) = rec.get("table") {
            dynops::set_table(dynops::table_from_json(t));
        }
        let Some(tv) = rec.get("text") else { return };
        n += 1;
        let text: &'static str = Box::leak(uncps(tv).into_boxed_str());
        let obs = guarded(|| -> exmex::ExResult<Value> {
            let wo = Flat::parse_wo_compile(text)?;
            // step level (hook events): eval of the uncompiled form, compile(), eval of the compiled form
            let events = |f: &dyn Fn() -> exmex::ExResult<()>| -> exmex::ExResult<Vec<Value>> {
                exmex::verif::start_recording();
                let r = f();
                let ev = exmex::verif::take_events();
                r?;
                Ok(ev.iter().filter_map(|e| serde_json::from_str::<Value>(e).ok()).collect())
            };
            let reduce_steps = |ev: &[Value]| -> Value {
                Value::Array(ev.iter().filter(|e| e["ev"] == "reduce").map(|e| json!([e["idx"].as_u64().unwrap_or(0) + 1, e["n1"].as_u64().unwrap_or(0) + 1, e["n2"].as_u64().unwrap_or(0) + 1])).collect())
            };
            let vals = |e: &Flat| crate::expr::var_terms(e.var_names());
            let ev_wo = events(&|| wo.eval(&vals(&wo)).map(|_| ()))?;
            let co2 = std::cell::RefCell::new(wo.clone());
            let ev_comp = events(&|| { co2.borrow_mut().compile(); Ok(()) })?;
            let comp = Value::Array(ev_comp.iter().filter(|e| e["form"] == "flat").map(|e| json!([e["ev"], e["op"].as_u64().unwrap_or(0) + 1, e["node"].as_u64().unwrap_or(0) + 1])).collect());
            let co = Flat::parse(text)?;
            let ev_co = events(&|| co.eval(&vals(&co)).map(|_| ()))?;
            exmex::verif::start_recording();
            let de_r = Deep::parse(text);
            let ev_deep: Vec<Value> = exmex::verif::take_events().iter().filter_map(|e| serde_json::from_str::<Value>(e).ok()).collect();
            let de = de_r?;
            let dcomp = Value::Array(ev_deep.iter().filter(|e| e["ev"] == "fold" && e["form"] == "deep")
                .map(|e| json!([e["op"].as_u64().unwrap_or(0) + 1, e["node"].as_u64().unwrap_or(0) + 1])).collect());
            let dd: Value = serde_json::from_str(&de.verif_dump()).unwrap_or(json!({}));
            // printed text of the deep form; `@<n>` (Debug of a folded term / constant) is normalised to `@`
            let mut up = String::new();
            let mut skip = false;
            for c in de.unparse().chars() {
                if skip && c.is_ascii_digit() {
                    continue;
                }
                skip = c == '@';
                up.push(c);
            }
            Ok(json!({"flat_wo": flat_shape(&wo.verif_dump()), "flat": flat_shape(&co.verif_dump()), "deep": deep_shape(&dd), "up": crate::term::cps(&up),
                      "vio_wo": plus1(&json!(wo.var_indices_ordered().to_vec())), "vio": plus1(&json!(co.var_indices_ordered().to_vec())),
                      "comp": comp, "steps_wo": reduce_steps(&ev_wo), "steps": reduce_steps(&ev_co), "dcomp": dcomp}))
        });
        let obs = match obs {
            Ok(Ok(v)) => v,
            _ => json!({"vio_wo": "failed", "vio": "failed", "flat_wo": "failed", "flat": "failed", "deep": "failed", "up": "failed", "comp": "failed", "steps_wo": "failed", "steps": "failed", "dcomp": "failed"}),
        };
        let mut diff = vec![];
        for k in ["flat_wo", "flat", "deep", "up", "vio_wo", "vio", "comp", "steps_wo", "steps", "dcomp"] {
            if rec.get(k) != obs.get(k) {
                diff.push(k);
            }
        }
        if diff.is_empty() {
            same += 1;
        } else {
            fwd += 1;
            if fwd <= 50 {
                let _ = writeln!(out, "{}", json!({"text": uncps(tv), "differs": diff, "model": {"vio_wo": rec.get("vio_wo"), "vio": rec.get("vio"), "flat_wo": rec.get("flat_wo"), "flat": rec.get("flat"), "deep": rec.get("deep"), "up": rec.get("up"), "comp": rec.get("comp"), "steps_wo": rec.get("steps_wo"), "steps": rec.get("steps"), "dcomp": rec.get("dcomp")}, "code": obs}));
            }
        }
    });
    let _ = out.flush();
    let summary = json!({"cases": n, "identical": same, "drift": fwd});
    if let Some(p) = o.get("summary") {
        std::fs::write(p, summary.to_string()).expect("summary");
    } else {
        eprintln!("{summary}");
    }
    0
}
