//! `DynOps`: an operator factory whose table is chosen at run time (thread-local), although
//! `MakeOperators::make` is a parameterless associated function.
use crate::term::{uncps, Term};
use exmex::{BinOp, MakeOperators, Operator};
use serde_json::Value;
use std::cell::RefCell;
use std::collections::HashSet;
use std::sync::Mutex;

#[derive(Clone, Debug, PartialEq)]
pub struct OpDesc {
    pub name: &'static str,
    pub bin: bool,
    pub un: bool,
    pub constant: bool,
    pub prio: i64,
    pub comm: bool,
}

pub const NSLOTS: usize = 96;

fn bslot<const I: usize>(a: Term, b: Term) -> Term {
    Term::Bin(I, Box::new(a), Box::new(b))
}
fn uslot<const I: usize>(a: Term) -> Term {
    Term::Un(I, Box::new(a))
}
macro_rules! slots {
    ($f:ident, $($i:literal),*) => { [$($f::<$i>),*] };
}
static BIN: [fn(Term, Term) -> Term; NSLOTS] = slots!(bslot, 0,1,2,3,4,5,6,7,8,9,10,11,12,13,14,15,16,17,18,19,20,21,22,23,24,25,26,27,28,29,30,31,32,33,34,35,36,37,38,39,40,41,42,43,44,45,46,47,48,49,50,51,52,53,54,55,56,57,58,59,60,61,62,63,64,65,66,67,68,69,70,71,72,73,74,75,76,77,78,79,80,81,82,83,84,85,86,87,88,89,90,91,92,93,94,95);
static UN: [fn(Term) -> Term; NSLOTS] = slots!(uslot, 0,1,2,3,4,5,6,7,8,9,10,11,12,13,14,15,16,17,18,19,20,21,22,23,24,25,26,27,28,29,30,31,32,33,34,35,36,37,38,39,40,41,42,43,44,45,46,47,48,49,50,51,52,53,54,55,56,57,58,59,60,61,62,63,64,65,66,67,68,69,70,71,72,73,74,75,76,77,78,79,80,81,82,83,84,85,86,87,88,89,90,91,92,93,94,95);

thread_local! {
    static TABLE: RefCell<Vec<OpDesc>> = const { RefCell::new(Vec::new()) };
}
static NAMES: Mutex<Option<HashSet<&'static str>>> = Mutex::new(None);

/// Interns a name for the life of the process (operator names must outlive every expression).
pub fn intern(name: &str) -> &'static str {
    let mut g = NAMES.lock().unwrap();
    let set = g.get_or_insert_with(HashSet::new);
    if let Some(s) = set.get(name) {
        return s;
    }
    let s: &'static str = Box::leak(name.to_string().into_boxed_str());
    set.insert(s);
    s
}

pub fn set_table(t: Vec<OpDesc>) {
    assert!(t.len() <= NSLOTS, "table too large for the slot array");
    TABLE.with(|c| *c.borrow_mut() = t);
}
pub fn table() -> Vec<OpDesc> {
    TABLE.with(|c| c.borrow().clone())
}

/// table from the JSON a TLA+ table record serialises to
pub fn table_from_json(v: &Value) -> Vec<OpDesc> {
    v.as_array()
        .expect("table must be an array")
        .iter()
        .map(|o| OpDesc {
            name: intern(&uncps(&o["name"])),
            bin: o["bin"].as_bool().unwrap_or(false),
            un: o["un"].as_bool().unwrap_or(false),
            constant: o["const"].as_bool().unwrap_or(false),
            prio: o["prio"].as_i64().unwrap_or(0),
            comm: o["comm"].as_bool().unwrap_or(false),
        })
        .collect()
}

pub fn table_to_json(t: &[OpDesc]) -> Value {
    Value::Array(
        t.iter()
            .map(|o| {
                serde_json::json!({"name": crate::term::cps(o.name), "bin": o.bin, "un": o.un,
                    "const": o.constant, "prio": o.prio, "comm": o.comm})
            })
            .collect(),
    )
}

#[derive(Clone, Debug)]
pub struct DynOps;
impl MakeOperators<Term> for DynOps {
    fn make<'a>() -> Vec<Operator<'a, Term>> {
        TABLE.with(|c| {
            c.borrow()
                .iter()
                .enumerate()
                .map(|(i, o)| {
                    let b = BinOp { apply: BIN[i], prio: o.prio, is_commutative: o.comm };
                    if o.constant {
                        Operator::make_constant(o.name, Term::Const(i))
                    } else if o.bin && o.un {
                        Operator::make_bin_unary(o.name, b, UN[i])
                    } else if o.bin {
                        Operator::make_bin(o.name, b)
                    } else {
                        Operator::make_unary(o.name, UN[i])
                    }
                })
                .collect()
        })
    }
}
