//! Replay of expression cases through the parsing/evaluation entry points with `T = Term`.
use crate::dynops::{self, DynOps};
use crate::term::{cps, uncps, Term, TermMatcher};
use crate::util::{for_each_record, guarded, Opts};
use exmex::prelude::*;
use exmex::{DeepEx, ExResult, Express};
use serde_json::{json, Map, Value};
use std::io::Write;

pub type Flat = FlatEx<Term, DynOps, TermMatcher>;
pub type Deep<'a> = DeepEx<'a, Term, DynOps, TermMatcher>;

pub fn var_terms(names: &[String]) -> Vec<Term> {
    names.iter().map(|n| Term::Var(n.clone())).collect()
}

pub struct Obs {
    pub outcome: &'static str, // ok | err | panic
    pub msg: String,
    pub vars: Vec<String>,
    pub den: Option<Term>,
    pub extra: Map<String, Value>,
}
impl Obs {
    pub fn to_json(&self) -> Value {
        let mut m = Map::new();
        m.insert("outcome".into(), json!(self.outcome));
        m.insert("vars".into(), Value::Array(self.vars.iter().map(|v| cps(v)).collect()));
        m.insert("den".into(), self.den.as_ref().map(|d| d.to_json()).unwrap_or(json!({"k": "none"})));
        if !self.msg.is_empty() {
            // messages are informational only; keep them ASCII for TLC
            let msg: String = self.msg.chars().filter(|c| c.is_ascii() && *c != '"' && *c != '\\').take(160).collect();
            m.insert("msg".into(), json!(msg));
        }
        for (k, v) in &self.extra {
            m.insert(k.clone(), v.clone());
        }
        Value::Object(m)
    }
}

fn lift<E: Express<'static, Term>>(r: Result<ExResult<(E, Term)>, String>) -> (Obs, Option<E>) {
    match r {
        Err(p) => (Obs { outcome: "panic", msg: p, vars: vec![], den: None, extra: Map::new() }, None),
        Ok(Err(e)) => (Obs { outcome: "err", msg: e.msg().to_string(), vars: vec![], den: None, extra: Map::new() }, None),
        Ok(Ok((e, d))) => {
            let mut extra = Map::new();
            let names = |v: Vec<String>| Value::Array(v.iter().map(|s| cps(s)).collect());
            let lst = guarded(|| {
                json!({"bin": names(e.binary_reprs().to_vec()), "un": names(e.unary_reprs().to_vec()),
                       "all": names(e.operator_reprs().to_vec())})
            });
            match lst {
                Ok(l) => {
                    extra.insert("lst".into(), l);
                }
                Err(_) => {
                    extra.insert("lst_panic".into(), json!(true));
                }
            }
            extra.insert("unparse".into(), cps(e.unparse()));
            (Obs { outcome: "ok", msg: String::new(), vars: e.var_names().to_vec(), den: Some(d), extra }, Some(e))
        }
    }
}

fn opaque(r: Result<ExResult<()>, String>) -> Obs {
    let mut extra = Map::new();
    extra.insert("opaque".into(), json!(true));
    let (outcome, msg) = match r {
        Err(p) => ("panic", p),
        Ok(Err(e)) => ("err", e.msg().to_string()),
        Ok(Ok(())) => ("ok", String::new()),
    };
    Obs { outcome, msg, vars: vec![], den: None, extra }
}

/// everything the property lists as follow-up on an accepted text: evaluate with a correct-length
/// slice, convert, unparse, list operators, differentiate
fn follow_up_f64(e: FlatEx<f64>) -> ExResult<()> {
    let n = e.var_names().len();
    let vals = vec![0.5f64; n];
    e.eval(&vals)?;
    e.eval_relaxed(&vals)?;
    e.eval_vec(vals.clone())?;
    e.eval_iter(vals.iter().copied())?;
    let _ = (e.unparse().len(), e.operator_reprs(), e.binary_reprs(), e.unary_reprs(), e.var_indices_ordered());
    let d = e.clone().to_deepex()?;
    d.eval(&vals)?;
    let _ = (d.unparse().len(), d.operator_reprs());
    let back = FlatEx::<f64>::from_deepex(d)?;
    back.eval(&vals)?;
    if n > 0 {
        // a missing derivative rule is an error value, not a crash
        let _ = e.clone().partial(0).map(|p| p.eval(&vals));
        let _ = e.partial_relaxed(n - 1, exmex::MissingOpMode::PerOperand).map(|p| p.eval(&vals));
    }
    Ok(())
}

fn follow_up_val(e: exmex::FlatExVal<i32, f64>) -> ExResult<()> {
    use exmex::Val;
    let n = e.var_names().len();
    for v in [Val::Int(1), Val::Float(0.5), Val::Bool(true), Val::None] {
        let vals = vec![v; n];
        e.eval(&vals)?;
        e.eval_vec(vals.clone())?;
    }
    // arrays: as every variable, and arrays / small integer indices alternating (component access at and beyond the end)
    let arr = |k: usize| -> Val<i32, f64> { Val::Array((0..k).map(|x| x as f64 + 0.5).collect()) };
    for k in 0..=4 {
        let _ = e.eval(&vec![arr(k); n]);
        for parity in 0..2 {
            let vals: Vec<Val<i32, f64>> = (0..n).map(|j| if j % 2 == parity { arr(2) } else { Val::Int(k as i32 - 1) }).collect();
            let _ = e.eval(&vals);
            let vals: Vec<Val<i32, f64>> = (0..n).map(|j| if j % 2 == parity { arr(k) } else { arr(3) }).collect();
            let _ = e.eval(&vals);
        }
    }
    let _ = (e.unparse().len(), e.operator_reprs());
    let d = e.clone().to_deepex()?;
    let vals = vec![Val::Float(0.5); n];
    d.eval(&vals)?;
    let _ = d.unparse().len();
    if n > 0 {
        let _ = e.partial(0).map(|p| p.eval(&vals));
    }
    Ok(())
}

fn eval_of<'a, E: Express<'a, Term>>(e: &E) -> ExResult<Term> {
    e.eval(&var_terms(e.var_names()))
}

/// Runs one entry point on a text. The text is leaked per case batch by the caller ('static simplifies
/// the DeepEx lifetime); cases are short.
pub fn run_entry(entry: &str, text: &'static str) -> Obs {
    match entry {
        "flat" => lift(guarded(|| {
            let e = Flat::parse(text)?;
            let d = eval_of(&e)?;
            Ok((e, d))
        }))
        .0,
        "flat_wo" => lift(guarded(|| {
            let e = Flat::parse_wo_compile(text)?;
            let d = eval_of(&e)?;
            Ok((e, d))
        }))
        .0,
        "flat_re" => lift(guarded(|| {
            let mut e = Flat::parse(text)?;
            e.compile();
            let d = eval_of(&e)?;
            Ok((e, d))
        }))
        .0,
        "flat_wo_re" => lift(guarded(|| {
            let mut e = Flat::parse_wo_compile(text)?;
            e.compile();
            e.compile();
            let d = eval_of(&e)?;
            Ok((e, d))
        }))
        .0,
        "deep" => lift(guarded(|| {
            let e = Deep::parse(text)?;
            let d = eval_of(&e)?;
            Ok((e, d))
        }))
        .0,
        "f2d" => lift(guarded(|| {
            let e = Flat::parse(text)?.to_deepex()?;
            let d = eval_of(&e)?;
            Ok((e, d))
        }))
        .0,
        "fwo2d" => lift(guarded(|| {
            let e = Flat::parse_wo_compile(text)?.to_deepex()?;
            let d = eval_of(&e)?;
            Ok((e, d))
        }))
        .0,
        "d2f" => lift(guarded(|| {
            let e = Flat::from_deepex(Deep::parse(text)?)?;
            let d = eval_of(&e)?;
            Ok((e, d))
        }))
        .0,
        "f2d2f" => lift(guarded(|| {
            let e = Flat::from_deepex(Flat::parse(text)?.to_deepex()?)?;
            let d = eval_of(&e)?;
            Ok((e, d))
        }))
        .0,
        "d2f2d" => lift(guarded(|| {
            let e = Flat::from_deepex(Deep::parse(text)?)?.to_deepex()?;
            let d = eval_of(&e)?;
            Ok((e, d))
        }))
        .0,
        // printing (C12): the deep form is printed and the printed text parsed again; the result is judged against the
        // meaning of the ORIGINAL text
        "d_up" | "f2d_up" | "fwo2d_up" | "d_up_d" | "f2d_up_d" => lift(guarded(|| {
            let deep = match entry {
                "d_up" | "d_up_d" => Deep::parse(text)?,
                "fwo2d_up" => Flat::parse_wo_compile(text)?.to_deepex()?,
                _ => Flat::parse(text)?.to_deepex()?,
            };
            let printed: &'static str = Box::leak(deep.unparse().to_string().into_boxed_str());
            if entry.ends_with("_d") {
                let e = Deep::parse(printed)?;
                let d = eval_of(&e)?;
                Ok((Flat::from_deepex(e)?, d))
            } else {
                let e = Flat::parse(printed)?;
                let d = eval_of(&e)?;
                Ok((e, d))
            }
        }))
        .0,
        "eval_str_f64" => opaque(guarded(|| exmex::eval_str::<f64>(text).map(|_| ()))),
        "eval_str_f32" => opaque(guarded(|| exmex::eval_str::<f32>(text).map(|_| ()))),
        "parse_f64" => opaque(guarded(|| follow_up_f64(exmex::parse::<f64>(text)?))),
        "parse_wo_f64" => opaque(guarded(|| follow_up_f64(FlatEx::<f64>::parse_wo_compile(text)?))),
        "deep_f64" => opaque(guarded(|| {
            let d = DeepEx::<f64>::parse(text)?;
            let vals = vec![0.5f64; d.var_names().len()];
            d.eval(&vals)?;
            let _ = (d.unparse().len(), d.operator_reprs(), d.binary_reprs(), d.unary_reprs());
            follow_up_f64(FlatEx::<f64>::from_deepex(d)?)
        })),
        "parse_val" => opaque(guarded(|| follow_up_val(exmex::parse_val::<i32, f64>(text)?))),
        // statement lines: the text as it is, and as left / right side of an assignment, with the `=` also in last position
        "stmt" => opaque(guarded(|| {
            let mut last = Ok(());
            for line in [text.to_string(), format!("{text}="), format!("v={text}"), format!("{text}={text}"), format!("{text}==")] {
                let line: &'static str = Box::leak(line.into_boxed_str());
                last = exmex::statements::line_2_statement::<f64, exmex::FloatOpsFactory<f64>, exmex::NumberMatcher>(line).map(|_| ());
            }
            last
        })),
        "stmt_val" => opaque(guarded(|| {
            let mut last = Ok(());
            for line in [text.to_string(), format!("{text}="), format!("v={text}"), format!("{text}={text}"), format!("{text}<=")] {
                let line: &'static str = Box::leak(line.into_boxed_str());
                last = exmex::line_2_statement_val::<i32, f64>(line).map(|_| ());
            }
            last
        })),
        _ => Obs { outcome: "err", msg: format!("unknown entry {entry}"), vars: vec![], den: None, extra: Map::new() },
    }
}

pub fn main(args: &[String]) -> i32 {
    let o = Opts::parse(args);
    let entries: Vec<String> =
        o.get("entries").unwrap_or("flat,flat_wo,deep").split(',').map(|s| s.to_string()).collect();
    let forward_all = o.has("forward-all");
    let totality = o.has("totality");
    let sample_every = o.num("sample-every", 0);
    let mut logf: Option<std::fs::File> = o.get("tlc-log").map(|p| std::fs::File::create(p).expect("log file"));
    let stdin = std::io::stdin();
    let stdout = std::io::stdout();
    let mut out = std::io::BufWriter::new(stdout.lock());
    let mut n_cases: u64 = 0;
    let mut n_runs: u64 = 0;
    let mut n_ident: u64 = 0;
    let mut n_fwd: u64 = 0;
    let mut outcomes: std::collections::BTreeMap<String, u64> = Default::default();
    let mut have_table = false;
    for_each_record(stdin.lock(), logf.as_mut().map(|f| f as &mut dyn Write), |rec| {
        if let Some(t) = rec.get("table") {
            dynops::set_table(dynops::table_from_json(t));
            have_table = true;
            if rec.get("text").is_none() {
                let _ = writeln!(out, "{}", json!({"table": t}));
                return;
            }
        }
        let Some(text_v) = rec.get("text") else { return };
        assert!(have_table, "case before table");
        n_cases += 1;
        let text: &'static str = Box::leak(uncps(text_v).into_boxed_str());
        let expect = if totality { "total" } else { rec.get("expect").and_then(|e| e.as_str()).unwrap_or("ok") };
        let ents: Vec<String> = match rec.get("entries").and_then(|e| e.as_array()) {
            Some(a) => a.iter().filter_map(|x| x.as_str().map(|s| s.to_string())).collect(),
            None => entries.clone(),
        };
        let mut runs: Vec<Value> = Vec::new();
        let mut all_ident = true;
        for entry in &ents {
            crate::term::reset_intern();
            let obs = run_entry(entry, text);
            n_runs += 1;
            *outcomes.entry(format!("{entry}:{}", obs.outcome)).or_insert(0) += 1;
            let oj = obs.to_json();
            let identical = match expect {
                "ok" => {
                    obs.outcome == "ok"
                        && rec.get("den").map(|d| *d == oj["den"]).unwrap_or(false)
                        && rec.get("vars").map(|v| *v == oj["vars"]).unwrap_or(false)
                }
                "err" => obs.outcome == "err",
                "total" => obs.outcome == "ok" || obs.outcome == "err",
                _ => false,
            };
            if identical {
                n_ident += 1;
            } else {
                all_ident = false;
            }
            let mut m = oj.as_object().unwrap().clone();
            m.insert("entry".into(), json!(entry));
            runs.push(Value::Object(m));
        }
        let sampled = sample_every > 0 && n_cases % sample_every == 0;
        if !all_ident || forward_all || sampled {
            n_fwd += 1;
            let mut m = Map::new();
            m.insert("case".into(), json!(n_cases));
            m.insert("text".into(), text_v.clone());
            m.insert("expect".into(), json!(expect));
            m.insert("ident".into(), json!(all_ident));
            m.insert("runs".into(), Value::Array(runs));
            for k in ["table", "tag", "dmg", "semtab"] {
                if let Some(t) = rec.get(k) {
                    m.insert(k.into(), t.clone());
                }
            }
            let _ = writeln!(out, "{}", Value::Object(m));
        }
        // the leaked text is tiny; free it when nothing can refer to it any more
        unsafe { drop(Box::from_raw(text as *const str as *mut str)) };
    });
    let _ = out.flush();
    let summary = json!({"cases": n_cases, "runs": n_runs, "identical": n_ident, "forwarded": n_fwd, "outcomes": outcomes});
    if let Some(p) = o.get("summary") {
        std::fs::write(p, summary.to_string()).expect("summary");
    } else {
        eprintln!("{summary}");
    }
    0
}
