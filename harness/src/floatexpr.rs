//! Composite expressions over the real float tables (C19): parsed as flat and deep expression over f64 and f32 and evaluated
//! at a dyadic point; the value is recorded as an exact fraction when it is one with a small denominator.  Only records.
use crate::term::uncps;
use crate::util::{for_each_record, guarded, Opts};
use exmex::prelude::*;
use exmex::{DeepEx, ExResult, Express};
use serde_json::{json, Value};
use std::io::Write;

fn frac(v: f64) -> Value {
    if !v.is_finite() {
        return json!({"outcome": "ok", "inexact": true});
    }
    let mut d: i64 = 1;
    let mut y = v;
    while y.fract() != 0.0 && d < (1 << 12) {
        y *= 2.0;
        d *= 2;
    }
    if y.fract() == 0.0 && y.abs() < 16000.0 {
        json!({"outcome": "ok", "inexact": false, "n": y as i64, "d": d})
    } else {
        json!({"outcome": "ok", "inexact": true})
    }
}

fn res(r: Result<ExResult<f64>, String>) -> Value {
    match r {
        Err(_) => json!({"outcome": "panic"}),
        Ok(Err(_)) => json!({"outcome": "err"}),
        Ok(Ok(v)) => frac(v),
    }
}

pub fn main(args: &[String]) -> i32 {
    let o = Opts::parse(args);
    let mut out = std::io::BufWriter::new(std::io::stdout().lock());
    let (mut n, mut runs) = (0u64, 0u64);
    for_each_record(std::io::stdin().lock(), None, |rec| {
        if rec.get("text").is_none() {
            if let Some(t) = rec.get("table") {
                let _ = writeln!(out, "{}", json!({"table": t}));
            }
            return;
        }
        n += 1;
        let text: &'static str = Box::leak(uncps(&rec["text"]).into_boxed_str());
        let point: Vec<(String, f64)> = rec["point"].as_array().map(|a| a.iter().map(|p| (uncps(&p[0]), p[1].as_i64().unwrap_or(0) as f64 / p[2].as_i64().unwrap_or(1) as f64)).collect()).unwrap_or_default();
        let vals64 = |names: &[String]| -> Vec<f64> { names.iter().map(|nm| point.iter().find(|p| &p.0 == nm).map(|p| p.1).unwrap_or(1.0)).collect() };
        let mut results = vec![];
        for (ty, form) in [("f64", "flat"), ("f64", "deep"), ("f32", "flat"), ("f32", "deep")] {
            runs += 1;
            let r = guarded(|| -> ExResult<f64> {
                Ok(match (ty, form) {
                    ("f64", "flat") => { let e = FlatEx::<f64>::parse(text)?; e.eval(&vals64(e.var_names()))? }
                    ("f64", _) => { let e = DeepEx::<f64>::parse(text)?; e.eval(&vals64(e.var_names()))? }
                    (_, "flat") => { let e = FlatEx::<f32>::parse(text)?; let v: Vec<f32> = vals64(e.var_names()).iter().map(|x| *x as f32).collect(); e.eval(&v)? as f64 }
                    _ => { let e = DeepEx::<f32>::parse(text)?; let v: Vec<f32> = vals64(e.var_names()).iter().map(|x| *x as f32).collect(); e.eval(&v)? as f64 }
                })
            });
            let mut j = res(r);
            j["ty"] = json!(ty);
            j["form"] = json!(form);
            results.push(j);
        }
        let mut m = rec.as_object().unwrap().clone();
        m.insert("case".into(), json!(n));
        m.insert("res".into(), Value::Array(results));
        let _ = writeln!(out, "{}", Value::Object(m));
    });
    let _ = out.flush();
    let summary = json!({"cases": n, "runs": runs});
    if let Some(p) = o.get("summary") {
        std::fs::write(p, summary.to_string()).expect("summary");
    } else {
        eprintln!("{summary}");
    }
    0
}
