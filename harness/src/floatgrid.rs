//! Applies the default float operators and constants (f32 and f64) to a grid and records the results in
//! 1e-4 fixed point together with the auxiliary compositions the axioms of FloatSem.tla talk about
//! (computed with the table's own functions).  Also records special-value classes.
use crate::util::{guarded, Opts};
use exmex::prelude::*;
use exmex::{FloatOpsFactory, MakeOperators, Operator};
use num::Float;
use serde_json::{json, Value};
use std::fmt::Debug;
use std::io::Write;
use std::str::FromStr;

const S: f64 = 10000.0;
fn fx<F: Float>(v: F) -> Value {
    let v = v.to_f64().unwrap_or(f64::NAN);
    if v.is_nan() {
        json!({"c": "nan", "v": 0})
    } else if v.is_infinite() {
        json!({"c": if v > 0.0 { "pinf" } else { "ninf" }, "v": 0})
    } else if v.abs() > 20.0 {
        json!({"c": "big", "v": 0, "s": if v > 0.0 { 1 } else { -1 }})
    } else {
        json!({"c": if v == 0.0 { if v.is_sign_negative() { "nzero" } else { "zero" } } else { "fin" }, "v": (v * S).round() as i64})
    }
}

fn run<F>(ty: &str, out: &mut impl Write) -> (u64, u64)
where
    F: Float + Debug + Default + FromStr + 'static,
    <F as FromStr>::Err: Debug,
{
    let table: Vec<Operator<'static, F>> = FloatOpsFactory::<F>::make();
    let un = |name: &str| table.iter().find(|o| o.repr() == name && o.has_unary()).map(|o| o.unary().unwrap());
    let f = |v: f64| F::from(v).unwrap();
    let grid: Vec<f64> = vec![-3.0, -2.0, -1.5, -1.0, -0.75, -0.5, -0.25, 0.0, 0.25, 0.5, 0.75, 1.0, 1.25, 1.5, 2.0, 2.5, 3.0];
    let specials: Vec<(&str, f64)> = vec![("nan", f64::NAN), ("pinf", f64::INFINITY), ("ninf", f64::NEG_INFINITY), ("zero", 0.0), ("nzero", -0.0),
                                          ("one", 1.0), ("mone", -1.0), ("two", 2.0), ("half", 0.5),
                                          ("tiny", if ty == "f32" { 1e-30 } else { 1e-300 }), ("huge", if ty == "f32" { 1e30 } else { 1e300 })];
    let (mut n, mut panics) = (0u64, 0u64);
    let mut emit = |rec: Value, out: &mut dyn Write| {
        let _ = writeln!(out, "{rec}");
    };
    // the forward functions used in the axioms of inverse functions
    let aux = |r: F| -> Value {
        let g = |nm: &str| un(nm).map(|h| fx(h(r))).unwrap_or(json!({"c": "missing", "v": 0}));
        json!({"sin": g("sin"), "cos": g("cos"), "exp": g("exp"), "sinh": g("sinh"), "cosh": g("cosh"), "tanh": g("tanh"),
               "sq": fx(r * r), "cube": fx(r * r * r), "ln": g("ln")})
    };
    for o in &table {
        let name = o.repr().to_string();
        if let Some(c) = o.constant() {
            n += 1;
            emit(json!({"case": 0, "ty": ty, "op": name, "ar": 0, "r": fx(c), "aux": aux(c)}), out);
            continue;
        }
        if o.has_unary() {
            let h = o.unary().unwrap();
            for &x in &grid {
                n += 1;
                let r = guarded(|| h(f(x)));
                let alpha = name.chars().all(|c| c.is_alphanumeric());
                let text = if alpha { format!("{name}(x)") } else { format!("{name} x") };
                let via = guarded(|| FlatEx::<F>::parse(&text).and_then(|e| e.eval(&[f(x)])));
                match r {
                    Ok(r) => emit(json!({"case": 0, "ty": ty, "op": name, "ar": 1, "x": fx(f(x)), "r": fx(r), "aux": aux(r),
                                         "via": match via.ok().and_then(|v| v.ok()) { None => "fail", Some(v) if v.to_f64().unwrap().to_bits() == r.to_f64().unwrap().to_bits() || (v.is_nan() && r.is_nan()) => "same", _ => "diff" }}), out),
                    Err(_) => {
                        panics += 1;
                        emit(json!({"case": 0, "ty": ty, "op": name, "ar": 1, "x": fx(f(x)), "r": {"c": "panic", "v": 0}}), out)
                    }
                }
            }
            if ["floor", "ceil", "round", "trunc", "fract"].contains(&name.as_str()) {
                // where the grid's fixed point cannot look: arguments whose unit in the last place is 1 or 1/2 (integers beyond
                // 2^mantissa, half-integers just below it) and the largest value below 1/2; the difference r - x is exact there
                let m: i32 = if ty == "f32" { 23 } else { 52 };
                let p = |e: i32| 2f64.powi(e);
                let below_half = if ty == "f32" { 0.5f32.to_bits() - 1 } else { 0 };
                let bh: f64 = if ty == "f32" { f32::from_bits(below_half) as f64 } else { f64::from_bits(0.5f64.to_bits() - 1) };
                let cat: Vec<(&str, f64)> = vec![("int", p(m) + 1.0), ("int", p(m) + 3.0), ("int", p(m + 1) - 1.0), ("int", p(m - 1) + 1.0), ("int", p(m) + 2.0),
                                                 ("int", p(m + 1) - 3.0), ("int", 3.0 * p(m - 1) + 1.0),
                                                 ("inthalf", p(m - 1) + 0.5), ("inthalf", p(m - 1) + 1.5), ("inthalf", p(m) - 0.5), ("belowhalf", bh)];
                for (cls, ax) in cat {
                    for neg in [false, true] {
                        n += 1;
                        let x = if neg { -ax } else { ax };
                        let r = guarded(|| h(f(x)));
                        let rec = match r {
                            Ok(r) => {
                                let d = (r.to_f64().unwrap_or(f64::NAN) - x) * 2.0;
                                let d2 = if d.is_finite() && d.abs() <= 4.0 && d.fract() == 0.0 { d as i64 } else { 99 };
                                json!({"case": 0, "ty": ty, "op": name, "ar": 1, "exact": cls, "neg": neg, "d2": d2, "r": fx(r)})
                            }
                            Err(_) => { panics += 1; json!({"case": 0, "ty": ty, "op": name, "ar": 1, "exact": cls, "neg": neg, "d2": 99, "r": {"c": "panic", "v": 0}}) }
                        };
                        emit(rec, out);
                    }
                }
            }
            for (sn, sv) in &specials {
                n += 1;
                let r = guarded(|| h(f(*sv)));
                emit(json!({"case": 0, "ty": ty, "op": name, "ar": 1, "special": sn, "r": r.map(fx).unwrap_or(json!({"c": "panic", "v": 0}))}), out);
            }
        }
        if o.has_bin() {
            let h = o.bin().unwrap().apply;
            for &x in &grid {
                for &y in &grid {
                    n += 1;
                    let r = guarded(|| h(f(x), f(y)));
                    let alpha = name.chars().all(|c| c.is_alphanumeric());
                    let infix = format!("a {name} b");
                    let call = format!("{name}(a, b)");
                    let vi = guarded(|| FlatEx::<F>::parse(&infix).and_then(|e| e.eval(&[f(x), f(y)]))).ok().and_then(|v| v.ok());
                    let vc = if alpha { guarded(|| FlatEx::<F>::parse(&call).and_then(|e| e.eval(&[f(x), f(y)]))).ok().and_then(|v| v.ok()) } else { vi };
                    match r {
                        Ok(r) => {
                            let same = |v: Option<F>| match v { None => "fail", Some(v) if v.to_f64().unwrap().to_bits() == r.to_f64().unwrap().to_bits() || (v.is_nan() && r.is_nan()) => "same", _ => "diff" };
                            emit(json!({"case": 0, "ty": ty, "op": name, "ar": 2, "x": fx(f(x)), "y": fx(f(y)), "r": fx(r), "aux": aux(r),
                                        "via": same(vi), "via_call": same(vc)}), out)
                        }
                        Err(_) => {
                            panics += 1;
                            emit(json!({"case": 0, "ty": ty, "op": name, "ar": 2, "x": fx(f(x)), "y": fx(f(y)), "r": {"c": "panic", "v": 0}}), out)
                        }
                    }
                }
            }
            for (sa, va) in &specials {
                for (sb, vb) in &specials {
                    n += 1;
                    let r = guarded(|| h(f(*va), f(*vb)));
                    emit(json!({"case": 0, "ty": ty, "op": name, "ar": 2, "special": sa, "special2": sb, "r": r.map(fx).unwrap_or(json!({"c": "panic", "v": 0}))}), out);
                }
            }
        }
    }
    (n, panics)
}

pub fn main(args: &[String]) -> i32 {
    let o = Opts::parse(args);
    let stdout = std::io::stdout();
    let mut buf: Vec<u8> = Vec::new();
    let (n1, p1) = run::<f64>("f64", &mut buf);
    let (n2, p2) = run::<f32>("f32", &mut buf);
    // number the records
    let mut out = std::io::BufWriter::new(stdout.lock());
    let mut k = 0u64;
    for line in String::from_utf8(buf).unwrap().lines() {
        k += 1;
        let mut v: Value = serde_json::from_str(line).unwrap();
        v["case"] = json!(k);
        let opa = v["op"].as_str().unwrap_or("").replace('π', "GREEK_PI").replace('τ', "GREEK_TAU");
        v["opa"] = json!(opa);
        v.as_object_mut().unwrap().remove("op");
        let _ = writeln!(out, "{v}");
    }
    let _ = out.flush();
    let summary = json!({"cases": n1 + n2, "runs": n1 + n2, "panics": p1 + p2});
    if let Some(p) = o.get("summary") {
        std::fs::write(p, summary.to_string()).expect("summary");
    } else {
        eprintln!("{summary}");
    }
    0
}
