//! Seeded generators of inputs beyond the exhaustive bounds (direction B).  They only produce *texts*
//! and tables; what the texts mean is decided by the TLA+ reference from the text alone, so a mistake
//! here cannot bias a verdict.
use crate::dynops::{intern, table_to_json, OpDesc};
use crate::term::cps;
use crate::util::{seed, Opts};
use rand::rngs::StdRng;
use rand::seq::{IndexedRandom, SliceRandom};
use rand::{Rng, SeedableRng};
use serde_json::json;
use std::io::Write;

pub enum Tr {
    Lit(String),
    Var(String, bool), // name, must be braced
    Const(usize),
    Un(usize, Box<Tr>),
    Bin(usize, Box<Tr>, Box<Tr>),
}

const SYM_BIN: &[&str] = &["*", "/", "%", "&", "|", "^", "<", ">", "<=", ">=", "==", "!=", "<<", ">>", "&&", "||", "**", "//"];
const ALPHA_BIN: &[&str] = &["min", "max", "mn", "pw", "atan2", "mod", "and", "or", "XOR", "else", "if"];
const UNARY: &[&str] = &["sin", "cos", "sn", "cs", "neg", "abs", "ln", "log", "log2", "log10", "exp", "!", "√", "σ"];
const CONSTS: &[&str] = &["PI", "E", "K", "π", "τ", "TAU"];

pub fn gen_table(rng: &mut StdRng) -> Vec<OpDesc> {
    let nprio = rng.random_range(1..=4);
    let prios: Vec<i64> = (0..nprio).map(|_| if rng.random_bool(0.3) { *[0i64, 99].choose(rng).unwrap() } else { rng.random_range(0..=99) }).collect();
    let mut t: Vec<OpDesc> = Vec::new();
    let mut names: Vec<&str> = Vec::new();
    let mut add = |t: &mut Vec<OpDesc>, name: &str, bin: bool, un: bool, c: bool, rng: &mut StdRng| {
        if names.contains(&name) {
            return;
        }
        let name = intern(name);
        names.push(name);
        t.push(OpDesc { name, bin, un, constant: c, prio: *prios.choose(rng).unwrap(), comm: bin && rng.random_bool(0.45) });
    };
    // sign operators, mostly dual
    for s in ["+", "-"] {
        let dual = rng.random_bool(0.8);
        add(&mut t, s, true, dual, false, rng);
    }
    if rng.random_bool(0.3) {
        add(&mut t, "~", rng.random_bool(0.5), true, false, rng);
    }
    let nb = rng.random_range(2..=6);
    for _ in 0..nb {
        let n = if rng.random_bool(0.7) { *SYM_BIN.choose(rng).unwrap() } else { *ALPHA_BIN.choose(rng).unwrap() };
        add(&mut t, n, true, false, false, rng);
    }
    for _ in 0..rng.random_range(1..=4) {
        add(&mut t, UNARY.choose(rng).unwrap(), false, true, false, rng);
    }
    for _ in 0..rng.random_range(0..=2) {
        add(&mut t, CONSTS.choose(rng).unwrap(), false, false, true, rng);
    }
    t.shuffle(rng);
    t
}

fn var_pool(rng: &mut StdRng, n: usize) -> Vec<(String, bool)> {
    let braced_only = ["a b", "1", "+", "x-y", "😀", "ä", "sin(x)", " lead", "{", "(", ",", "日本"];
    let mut v: Vec<(String, bool)> = Vec::new();
    for i in 0..n {
        let k = rng.random_range(0..6);
        let name = match k {
            0 => (format!("v{i}"), false),
            1 => (format!("_q{i}"), false),
            2 => (format!("α{i}"), false),
            3 => (format!("Ω_{i}"), false),
            4 => (format!("{}{}", braced_only.choose(rng).unwrap(), i), true),
            _ => (format!("Z{i}z"), false),
        };
        v.push(name);
    }
    v
}

fn gen_lit(rng: &mut StdRng) -> String {
    match rng.random_range(0..6) {
        0 => format!("{}.{}", rng.random_range(0..100), rng.random_range(0..100)),
        1 => format!(".{}", rng.random_range(0..10)),
        2 => format!("{}.", rng.random_range(0..10)),
        _ => format!("{}", rng.random_range(0..1000)),
    }
}

struct G<'a> {
    rng: &'a mut StdRng,
    bins: Vec<usize>,
    uns: Vec<usize>,
    consts: Vec<usize>,
    vars: Vec<(String, bool)>,
    p_un: f64,
    p_lit: f64,
}

impl G<'_> {
    fn leaf(&mut self) -> Tr {
        let r: f64 = self.rng.random();
        if r < self.p_lit || self.vars.is_empty() {
            if !self.consts.is_empty() && self.rng.random_bool(0.1) {
                Tr::Const(*self.consts.choose(self.rng).unwrap())
            } else {
                Tr::Lit(gen_lit(self.rng))
            }
        } else {
            let (n, b) = self.vars.choose(self.rng).unwrap().clone();
            Tr::Var(n, b)
        }
    }
    fn deco(&mut self, t: Tr) -> Tr {
        let mut t = t;
        while !self.uns.is_empty() && self.rng.random_bool(self.p_un) {
            t = Tr::Un(*self.uns.choose(self.rng).unwrap(), Box::new(t));
        }
        t
    }
    /// shape: 0 random split, 1 left-deep chain, 2 right-deep chain
    fn tree(&mut self, n: usize, shape: u8) -> Tr {
        if n <= 1 {
            let l = self.leaf();
            return self.deco(l);
        }
        let k = match shape {
            1 => n - 1,
            2 => 1,
            _ => self.rng.random_range(1..n),
        };
        let o = *self.bins.choose(self.rng).unwrap();
        let sub = if self.rng.random_bool(0.15) { self.rng.random_range(0..3) } else { shape };
        let l = self.tree(k, sub);
        let r = self.tree(n - k, sub);
        self.deco(Tr::Bin(o, Box::new(l), Box::new(r)))
    }
}

#[derive(Clone, PartialEq)]
pub enum Tok {
    Open,
    Close,
    Word(String, u8), // text, class: 0 literal, 1 bare var, 2 braced var, 3 symbolic op, 4 alphabetic op/const
}

fn is_alpha_name(s: &str) -> bool {
    s.chars().all(|c| c.is_alphanumeric() || c == '_')
}

fn render(rng: &mut StdRng, t: &Tr, tab: &[OpDesc], p_redundant: f64, out: &mut Vec<Tok>) {
    let wrap = rng.random_bool(p_redundant);
    if wrap {
        out.push(Tok::Open);
    }
    match t {
        Tr::Lit(s) => out.push(Tok::Word(s.clone(), 0)),
        Tr::Var(n, must) => {
            if *must || rng.random_bool(0.3) {
                out.push(Tok::Word(format!("{{{n}}}"), 2))
            } else {
                out.push(Tok::Word(n.clone(), 1))
            }
        }
        Tr::Const(o) => out.push(Tok::Word(tab[*o].name.to_string(), 4)),
        Tr::Un(o, a) => {
            let nm = tab[*o].name;
            out.push(Tok::Word(nm.to_string(), if is_alpha_name(nm) { 4 } else { 3 }));
            let need = matches!(**a, Tr::Bin(..)) || rng.random_bool(0.3);
            if need {
                out.push(Tok::Open);
            }
            render(rng, a, tab, p_redundant, out);
            if need {
                out.push(Tok::Close);
            }
        }
        Tr::Bin(o, l, r) => {
            let p = tab[*o].prio;
            let lp = matches!(**l, Tr::Bin(lo, ..) if tab[lo].prio < p);
            let rp = matches!(**r, Tr::Bin(ro, ..) if tab[ro].prio <= p);
            if lp {
                out.push(Tok::Open);
            }
            render(rng, l, tab, p_redundant, out);
            if lp {
                out.push(Tok::Close);
            }
            let nm = tab[*o].name;
            out.push(Tok::Word(nm.to_string(), if is_alpha_name(nm) { 4 } else { 3 }));
            if rp {
                out.push(Tok::Open);
            }
            render(rng, r, tab, p_redundant, out);
            if rp {
                out.push(Tok::Close);
            }
        }
    }
    if wrap {
        out.push(Tok::Close);
    }
}

pub fn to_text(rng: &mut StdRng, toks: &[Tok], p_space: f64) -> String {
    let mut s = String::new();
    for (i, t) in toks.iter().enumerate() {
        if i > 0 {
            // a blank may only be dropped next to a parenthesis or a braced variable
            let safe = |x: &Tok| matches!(x, Tok::Open | Tok::Close | Tok::Word(_, 2));
            let can_drop = safe(&toks[i - 1]) || safe(t);
            if !can_drop || rng.random_bool(p_space) {
                s.push(' ');
                if rng.random_bool(0.05) {
                    s.push(' ');
                }
            }
        }
        match t {
            Tok::Open => s.push('('),
            Tok::Close => s.push(')'),
            Tok::Word(w, _) => s.push_str(w),
        }
    }
    s
}

pub fn gen_case(rng: &mut StdRng, n_operands: usize, n_vars: usize, shape: u8, p_un: f64, p_red: f64) -> (Vec<OpDesc>, String) {
    let tab = gen_table(rng);
    let (toks, _) = gen_toks(rng, &tab, n_operands, n_vars, shape, p_un, p_red, false);
    let p_space = *[0.0, 0.5, 1.0].choose(rng).unwrap();
    let text = to_text(rng, &toks, p_space);
    (tab, text)
}

pub fn gen_toks(rng: &mut StdRng, tab: &[OpDesc], n_operands: usize, n_vars: usize, shape: u8, p_un: f64, p_red: f64, plain_lits: bool) -> (Vec<Tok>, ()) {
    let tab = tab.to_vec();
    let bins: Vec<usize> = tab.iter().enumerate().filter(|(_, o)| o.bin).map(|(i, _)| i).collect();
    let uns: Vec<usize> = tab.iter().enumerate().filter(|(_, o)| o.un).map(|(i, _)| i).collect();
    let consts: Vec<usize> = tab.iter().enumerate().filter(|(_, o)| o.constant).map(|(i, _)| i).collect();
    let vars = var_pool(rng, n_vars);
    let p_lit = if n_vars == 0 { 1.0 } else { rng.random_range(0.2..0.8) };
    let tree = {
        let mut g = G { rng, bins, uns, consts, vars, p_un, p_lit };
        g.tree(n_operands, shape)
    };
    let mut toks = Vec::new();
    render(rng, &tree, &tab, p_red, &mut toks);
    if plain_lits {
        for t in toks.iter_mut() {
            if let Tok::Word(w, 0) = t {
                if w.starts_with('.') || w.ends_with('.') {
                    *w = w.replace('.', "");
                    if w.is_empty() {
                        *w = "7".into();
                    }
                }
            }
        }
    }
    (toks, ())
}

/// a well-formed text over a (mirror of a) real table, damaged at one point in one of the ways of C07
pub fn gen_damaged(rng: &mut StdRng, tab: &[OpDesc]) -> (String, &'static str) {
    let n = rng.random_range(1..10);
    let (mut toks, _) = gen_toks(rng, tab, n, 3, 0, 0.25, 0.15, true);
    let bins: Vec<&str> = tab.iter().filter(|o| o.bin).map(|o| o.name).collect();
    let kind = *["paren_deleted", "paren_inserted", "bin_appended", "extra_operand", "illegal_char", "sci_literal", "none"].choose(rng).unwrap();
    match kind {
        "paren_deleted" => {
            let ps: Vec<usize> = toks.iter().enumerate().filter(|(_, t)| matches!(t, Tok::Open | Tok::Close)).map(|(i, _)| i).collect();
            if let Some(p) = ps.choose(rng) {
                toks.remove(*p);
            } else {
                toks.push(Tok::Close);
            }
        }
        "paren_inserted" => {
            let p = rng.random_range(0..=toks.len());
            toks.insert(p, if rng.random_bool(0.5) { Tok::Open } else { Tok::Close });
        }
        "bin_appended" => toks.push(Tok::Word(bins.choose(rng).unwrap().to_string(), 3)),
        "extra_operand" => {
            let os: Vec<usize> = toks.iter().enumerate().filter(|(_, t)| matches!(t, Tok::Word(_, 0 | 1 | 2))).map(|(i, _)| i).collect();
            let p = os.choose(rng).map(|p| *p + if rng.random_bool(0.5) { 1 } else { 0 }).unwrap_or(toks.len());
            toks.insert(p, Tok::Word(if rng.random_bool(0.5) { "9".into() } else { "zz".into() }, 0));
        }
        _ => {}
    }
    let mut text = to_text(rng, &toks, 1.0);
    if kind == "sci_literal" {
        // a literal in the float grammar of Rust's FromStr but not in the number syntax of exmex (number followed by a
        // variable): alone (with blanks around it) or in place of the whole left / right operand of a binary operator
        let lit = *["1e5", "2E3", "1e+5", "2.5e-3", "7e0", "5e1", "1e-2", "3E+0", "4e1", "1.0e1"].choose(rng).unwrap();
        let pad = |rng: &mut StdRng| " ".repeat(rng.random_range(0..3));
        text = match rng.random_range(0..4) {
            0 | 1 => format!("{}{}{}", pad(rng), lit, pad(rng)),
            2 => format!("{} {} ({})", lit, bins.choose(rng).unwrap(), text),
            _ => format!("({}) {} {}", text, bins.choose(rng).unwrap(), lit),
        };
    }
    if kind == "illegal_char" {
        // outside braces: a braced name may contain anything
        let cs: Vec<char> = text.chars().collect();
        let mut depth = 0;
        let spots: Vec<usize> = (0..=cs.len())
            .filter(|&i| {
                if i > 0 {
                    match cs[i - 1] {
                        '{' => depth += 1,
                        '}' => depth -= 1,
                        _ => {}
                    }
                }
                depth == 0
            })
            .collect();
        let p = *spots.choose(rng).unwrap();
        let mut cs = cs;
        cs.insert(p, *['#', '$', '\\', '?', '\'', '"', ';', '§'].choose(rng).unwrap());
        text = cs.into_iter().collect();
    }
    (text, kind)
}

/// nesting family: `u(u((... x ...)))` to the given depth, mixed parens and unary calls
pub fn gen_nested(rng: &mut StdRng, depth: usize) -> (Vec<OpDesc>, String) {
    let tab = gen_table(rng);
    let uns: Vec<&str> = tab.iter().filter(|o| o.un).map(|o| o.name).collect();
    let bins: Vec<&str> = tab.iter().filter(|o| o.bin).map(|o| o.name).collect();
    let mut pre = String::new();
    let mut post = String::new();
    for _ in 0..depth {
        match rng.random_range(0..5) {
            // call form of a binary operator, the rest nested in its second / in its first argument
            3 if !bins.is_empty() => {
                pre.push_str(&format!("{}({}, ", bins.choose(rng).unwrap(), gen_lit(rng)));
                post.insert(0, ')');
            }
            4 if !bins.is_empty() => {
                pre.push_str(&format!("{} (", bins.choose(rng).unwrap()));
                post.insert_str(0, ", v1)");
            }
            0 if !uns.is_empty() => {
                pre.push_str(uns.choose(rng).unwrap());
                pre.push_str(" (");
                post.insert(0, ')');
            }
            1 if !bins.is_empty() => {
                pre.push_str(&format!("( {} {} ", gen_lit(rng), bins.choose(rng).unwrap()));
                post.insert(0, ')');
            }
            _ => {
                pre.push('(');
                post.insert_str(0, &format!(" {} v1 )", bins.choose(rng).unwrap()));
            }
        }
    }
    (tab, format!("{pre} v0 {post}"))
}

/// chains `v0 o1 v1 o2 ...` whose priorities impose a chosen application order (C14)
pub fn gen_chain(rng: &mut StdRng, n_operands: usize, pattern: u8) -> (Vec<OpDesc>, String) {
    let nops = n_operands - 1;
    let levels = nops.min(90);
    // operators p0..p{levels-1} with priorities 0..levels-1 (capped at 99), all non-commutative
    let tab: Vec<OpDesc> = (0..levels)
        .map(|k| OpDesc { name: intern(&format!("p{k}")), bin: true, un: false, constant: false, prio: (k as i64).min(99), comm: false })
        .collect();
    // priority level of the operator at each position
    let lvl: Vec<usize> = (0..nops)
        .map(|i| {
            let x = match pattern {
                0 => i,                                   // ascending: rightmost first
                1 => nops - 1 - i,                        // descending: leftmost first
                2 => if i % 2 == 0 { i / 2 } else { nops - 1 - i / 2 }, // alternating
                3 => { let m = nops / 2; if i >= m { i - m } else { m - i } } // inside-out
                4 => rng.random_range(0..nops),
                _ => (i * 7919) % nops,
            };
            x * levels / nops.max(1)
        })
        .collect();
    // pattern 6 "plateau": long left-to-right runs of one priority (whole tracker words are consumed by one run), a few
    // operators of higher priority inside them (applied first) and a few of lower priority (applied last, to the right and
    // to the left of the runs)
    let lvl: Vec<usize> = if pattern == 6 && levels >= 6 {
        // the special operators stay out of the middle tracker words (operands 62..128), so that one run consumes a whole word
        let right = 128.min(nops.saturating_sub(2));
        let allowed: Vec<usize> = (0..nops).filter(|p| *p < 62 || *p >= right).collect();
        let mut l = vec![1usize; nops];
        for _ in 0..rng.random_range(1..=3) { l[*allowed.choose(rng).unwrap()] = rng.random_range(2..6); }
        for _ in 0..rng.random_range(0..=2) { l[*allowed.choose(rng).unwrap()] = 0; }
        l[rng.random_range(right..nops)] = 0;      // at least one operator right of the run is applied after it
        l
    } else {
        lvl
    };
    let mut s = String::new();
    for i in 0..n_operands {
        if i > 0 {
            s.push_str(&format!(" p{} ", lvl[i - 1].min(levels - 1)));
        }
        if rng.random_bool(0.5) { s.push_str(&format!("v{i}")) } else { s.push_str(&format!("{i}")) }
    }
    (tab, s)
}

/// random trees with a random subset of the binary operators written in call form `op(l, r)`, nested to any depth (C08)
fn render_calls(rng: &mut StdRng, t: &Tr, tab: &[OpDesc], p_call: f64, out: &mut String) {
    match t {
        Tr::Lit(s) => out.push_str(s),
        Tr::Var(n, must) => if *must { out.push_str(&format!("{{{n}}}")) } else { out.push_str(n) },
        Tr::Const(o) => out.push_str(tab[*o].name),
        Tr::Un(o, a) => {
            out.push_str(tab[*o].name);
            out.push('(');
            render_calls(rng, a, tab, p_call, out);
            out.push(')');
        }
        Tr::Bin(o, l, r) => {
            if rng.random_bool(p_call) {
                out.push_str(tab[*o].name);
                out.push_str(if rng.random_bool(0.5) { "(" } else { " (" });
                render_calls(rng, l, tab, p_call, out);
                out.push_str(if rng.random_bool(0.5) { ", " } else { "," });
                render_calls(rng, r, tab, p_call, out);
                out.push(')');
            } else {
                // infix with explicit parentheses around both operands (grouping is not what this family is about)
                out.push('(');
                render_calls(rng, l, tab, p_call, out);
                out.push_str(&format!(") {} (", tab[*o].name));
                render_calls(rng, r, tab, p_call, out);
                out.push(')');
            }
        }
    }
}
fn render_calls_min(rng: &mut StdRng, t: &Tr, tab: &[OpDesc], p_call: f64, out: &mut String) {
    // minimal parentheses around infix operands so that priorities matter next to call forms
    match t {
        Tr::Bin(o, l, r) if !rng.random_bool(p_call) => {
            let p = tab[*o].prio;
            let lp = matches!(**l, Tr::Bin(lo, ..) if tab[lo].prio < p);
            let rp = matches!(**r, Tr::Bin(ro, ..) if tab[ro].prio <= p);
            if lp { out.push('('); }
            render_calls_min(rng, l, tab, 1.0, out);
            if lp { out.push(')'); }
            out.push_str(&format!(" {} ", tab[*o].name));
            if rp { out.push('('); }
            render_calls_min(rng, r, tab, 1.0, out);
            if rp { out.push(')'); }
        }
        Tr::Bin(o, l, r) => {
            out.push_str(tab[*o].name);
            out.push('(');
            render_calls_min(rng, l, tab, p_call, out);
            out.push_str(", ");
            render_calls_min(rng, r, tab, p_call, out);
            out.push(')');
        }
        other => render_calls(rng, other, tab, p_call, out),
    }
}
pub fn gen_calls(rng: &mut StdRng) -> (Vec<OpDesc>, String) {
    let tab = gen_table(rng);
    let bins: Vec<usize> = tab.iter().enumerate().filter(|(_, o)| o.bin).map(|(i, _)| i).collect();
    let uns: Vec<usize> = tab.iter().enumerate().filter(|(_, o)| o.un && !o.bin).map(|(i, _)| i).collect();
    let n = rng.random_range(2..=9);
    let shape = *[0u8, 2, 2, 0, 1].choose(rng).unwrap();
    let tree = {
        let mut g = G { rng, bins, uns, consts: vec![], vars: vec![("v0".into(), false), ("v1".into(), false), ("v2".into(), false)], p_un: 0.1, p_lit: 0.5 };
        g.tree(n, shape)
    };
    let mut s = String::new();
    if rng.random_bool(0.5) {
        render_calls(rng, &tree, &tab, 0.7, &mut s);
    } else {
        render_calls_min(rng, &tree, &tab, 0.6, &mut s);
    }
    (tab, s)
}

/// token soup: random sequences of tokens of the table, parentheses, commas, literals, variables and junk
pub fn gen_soup(rng: &mut StdRng, len: usize) -> (Vec<OpDesc>, String) {
    let tab = gen_table(rng);
    let mut s = String::new();
    for _ in 0..len {
        let piece: String = match rng.random_range(0..14) {
            0 | 1 | 2 => tab.choose(rng).map(|o| o.name.to_string()).unwrap_or_default(),
            3 => "(".into(),
            4 => ")".into(),
            5 => gen_lit(rng),
            6 => format!("v{}", rng.random_range(0..3)),
            7 => format!("{{{}}}", ["a b", "x", "", "+", "😀"].choose(rng).unwrap()),
            8 => ",".into(),
            9 => ["{", "}", ".", "..", "#", "\\", "$", "\t", "\n", "é", "€", "😀", "[", "]", "@1", "@"].choose(rng).unwrap().to_string(),
            _ => {
                // a piece of a well-formed operand
                format!("v{} {} {}", rng.random_range(0..3), tab.iter().filter(|o| o.bin).map(|o| o.name).next().unwrap_or("+"), gen_lit(rng))
            }
        };
        s.push_str(&piece);
        if rng.random_bool(0.6) {
            s.push(' ');
        }
    }
    (tab, s)
}

/// a well-formed text with a few random character edits
pub fn gen_mutant(rng: &mut StdRng) -> (Vec<OpDesc>, String) {
    let n = rng.random_range(1..12);
    let (tab, text) = gen_case(rng, n, 3, 0, 0.2, 0.1);
    let mut cs: Vec<char> = text.chars().collect();
    let junk: Vec<char> = "()(){}.,+-*/ 0123456789abcxyz#@$\\πτα😀\u{0}\t".chars().collect();
    for _ in 0..rng.random_range(1..=3) {
        if cs.is_empty() {
            break;
        }
        let p = rng.random_range(0..cs.len());
        match rng.random_range(0..4) {
            0 => {
                cs.remove(p);
            }
            1 => cs.insert(p, *junk.choose(rng).unwrap()),
            2 => cs[p] = *junk.choose(rng).unwrap(),
            _ => {
                let q = rng.random_range(0..cs.len());
                cs.swap(p, q);
            }
        }
    }
    (tab, cs.into_iter().collect())
}

/// structural mirrors of the real operator tables, read from the implementation's own `make()`
pub fn real_table(which: &str) -> Vec<OpDesc> {
    use exmex::MakeOperators;
    fn conv<T: Clone + std::fmt::Debug>(ops: Vec<exmex::Operator<'static, T>>) -> Vec<OpDesc> {
        ops.iter()
            .map(|o| {
                let b = o.bin().ok();
                OpDesc {
                    name: intern(o.repr()),
                    bin: o.has_bin(),
                    un: o.has_unary(),
                    constant: o.constant().is_some(),
                    prio: b.as_ref().map(|b| b.prio).unwrap_or(0),
                    comm: b.as_ref().map(|b| b.is_commutative).unwrap_or(false),
                }
            })
            .collect()
    }
    match which {
        "float" => conv(exmex::FloatOpsFactory::<f64>::make()),
        _ => conv(exmex::ValOpsFactory::<i32, f64>::make()),
    }
}

/// texts that stress the lexical rules: names extended/truncated/concatenated, literal spellings, signs
pub fn gen_lex_text(rng: &mut StdRng, tab: &[OpDesc]) -> String {
    let lits = ["1", "1.", ".1", "1.1", "1..", "1.1.1", ".", "12.5", "007", "1e5", "0x1", "4"];
    let ids = ["x", "y1", "_a", "α", "Ω2", "Erwin", "expx", "sin4", "PI5", "e", "E", "π", "τx", "log2x", "log1", "mine", "xmin"];
    let glue = ["", "", " ", "  "];
    let mut s = String::new();
    for _ in 0..rng.random_range(1..=5) {
        let piece: String = match rng.random_range(0..12) {
            0 | 1 => tab.choose(rng).unwrap().name.to_string(),
            2 => format!("{}{}", tab.choose(rng).unwrap().name, ["x", "1", "_", "α", "h", "2", "10"].choose(rng).unwrap()),
            3 => {
                let n = tab.choose(rng).unwrap().name;
                let k = n.chars().count();
                n.chars().take(rng.random_range(1..=k)).collect()
            }
            4 => format!("{}{}", tab.choose(rng).unwrap().name, tab.choose(rng).unwrap().name),
            5 | 6 => lits.choose(rng).unwrap().to_string(),
            7 => ids.choose(rng).unwrap().to_string(),
            8 => ["+", "-", "+-", "--", "-+-", "+++"].choose(rng).unwrap().to_string(),
            9 => ["(", ")", "((", "))"].choose(rng).unwrap().to_string(),
            10 => format!("{{{}}}", ["x", "a b", "1", "sin", "+", "α β", "😀"].choose(rng).unwrap()),
            _ => format!("{}(x)", tab.iter().filter(|o| o.un && !o.bin).map(|o| o.name).collect::<Vec<_>>().choose(rng).unwrap_or(&"sin")),
        };
        s.push_str(&piece);
        s.push_str(glue.choose(rng).unwrap());
    }
    s
}

/// value-typed texts with array literals: component access at / beyond the end, dot / cross / length on arrays of every
/// small length, arrays mixed with scalars, nested brackets, damaged brackets
pub fn gen_arr_text(rng: &mut StdRng) -> String {
    fn arr(rng: &mut StdRng) -> String {
        let k = rng.random_range(0..=4);
        let items: Vec<String> = (0..k).map(|_| match rng.random_range(0..6) {
            0 => "x".to_string(),
            1 => format!("{}", rng.random_range(-3..9)),
            2 => "1/0".to_string(),
            _ => format!("{}.{}", rng.random_range(0..9), rng.random_range(0..9)),
        }).collect();
        match rng.random_range(0..40) {
            0 => format!("[{}", items.join(",")),
            1 => format!("{}]", items.join(",")),
            2 => format!("[[{}]]", items.join(", ")),
            3 | 4 | 5 | 6 => "a".to_string(),
            _ => format!("[{}]", items.join(if rng.random_bool(0.5) { ", " } else { "," })),
        }
    }
    fn scalar(rng: &mut StdRng) -> String {
        ["1", "2.5", "x", "i", "0", "-1", "3", "4", "true", "7 if false"].choose(rng).unwrap().to_string()
    }
    let mut s = String::new();
    for k in 0..rng.random_range(1..=3) {
        if k > 0 {
            s.push_str(["+", "-", "*", "/", " dot ", " cross ", "==", "<=", ".", " if ", " else ", "^", "%", "|"].choose(rng).unwrap());
        }
        let piece = match rng.random_range(0..9) {
            0 | 1 | 2 => format!("{}.{}", arr(rng), ["0", "1", "2", "3", "4", "5", "i", "-1", "1.0", "x"].choose(rng).unwrap()),
            3 => format!("length({})", arr(rng)),
            4 => format!("dot({}, {})", arr(rng), arr(rng)),
            5 => format!("cross({}, {})", arr(rng), arr(rng)),
            6 => format!("({}).{}", arr(rng), rng.random_range(0..5)),
            7 => format!("{}({})", ["sin", "-", "abs", "to_int", "fact", "!", "length", "signum"].choose(rng).unwrap(), arr(rng)),
            _ => if rng.random_bool(0.5) { arr(rng) } else { scalar(rng) },
        };
        s.push_str(&piece);
    }
    s
}

pub fn main_tables(_args: &[String]) -> i32 {
    println!("{}", json!({"float": table_to_json(&real_table("float")), "val": table_to_json(&real_table("val"))}));
    0
}

pub fn main(args: &[String]) -> i32 {
    let o = Opts::parse(args);
    let n = o.num("n", 100);
    let lo = o.num("min-operands", 10) as usize;
    let hi = o.num("max-operands", 120) as usize;
    let stream = o.num("stream", 0);
    let family = o.get("family").unwrap_or("mixed").to_string();
    let mut rng = StdRng::seed_from_u64(seed().wrapping_mul(0x9E3779B97F4A7C15).wrapping_add(stream));
    let stdout = std::io::stdout();
    let mut out = std::io::BufWriter::new(stdout.lock());
    for i in 0..n {
        let (tab, text, tag) = match family.as_str() {
            "mirror-float" | "mirror-val" => {
                let t = real_table(if family == "mirror-float" { "float" } else { "val" });
                let n = rng.random_range(2..=8);
                let (toks, _) = gen_toks(&mut rng, &t, n, 3, 0, 0.15, 0.1, true);
                (t, to_text(&mut rng, &toks, 1.0), family.clone())
            }
            "repeat" => {
                // one variable occurring very often (counter widths: 255 | 256 | 257), a second one a few times, literals in between
                let tab = vec![
                    OpDesc { name: intern("+"), bin: true, un: false, constant: false, prio: 0, comm: true },
                    OpDesc { name: intern("*"), bin: true, un: false, constant: false, prio: 50, comm: true },
                    OpDesc { name: intern("-"), bin: true, un: false, constant: false, prio: 0, comm: false },
                ];
                let k = [2usize, 17, 64, 65, 127, 128, 254, 255, 256, 257, 258, 300][(i as usize) % 12];
                let mut s = String::new();
                // products of up to 16 factors joined by + / -: the tree stays shallow (TLC's JSON reader nests at most 255 deep)
                let mut placed = 0;
                let mut in_group = 0;
                while placed < k {
                    if in_group > 0 {
                        if in_group >= 16 || rng.random_bool(0.1) {
                            s.push_str([" + ", " - ", " + "].choose(&mut rng).unwrap());
                            in_group = 0;
                        } else {
                            s.push_str(" * ");
                        }
                    }
                    in_group += 1;
                    match rng.random_range(0..12) {
                        0 => s.push_str("w"),
                        1 => s.push_str(&rng.random_range(1..9).to_string()),
                        _ => { s.push_str("v"); placed += 1; }
                    }
                }
                (tab, s, format!("repeat{k}"))
            }
            "arr-val" => {
                let t = real_table("val");
                (t, gen_arr_text(&mut rng), family.clone())
            }
            "dmg-float" | "dmg-val" => {
                let t = real_table(if family == "dmg-float" { "float" } else { "val" });
                // the value table's `.`/if/else and comparison chains are fine; its literals must be plain
                let (s, kind) = gen_damaged(&mut rng, &t);
                (t, s, kind.to_string())
            }
            "lex-float" | "lex-val" | "lex-rnd" => {
                let t = match family.as_str() {
                    "lex-float" => real_table("float"),
                    "lex-val" => real_table("val"),
                    _ => gen_table(&mut rng),
                };
                let s = gen_lex_text(&mut rng, &t);
                (t, s, family.clone())
            }
            "calls" => {
                let (t, s) = gen_calls(&mut rng);
                (t, s, "calls".to_string())
            }
            "chain" => {
                let max_chain = o.num("max-chain", 300) as usize;
                let sizes: Vec<usize> = [9usize, 17, 31, 32, 33, 63, 64, 65, 66, 127, 128, 129, 130, 191, 192, 193, 194, 249, 250]
                    .into_iter().filter(|s| *s <= max_chain).collect();
                let n_ops = sizes[(i as usize + 7 * stream as usize) % sizes.len()];
                let pat = (((i as usize) / sizes.len() + stream as usize) % 7) as u8;
                let (t, s) = gen_chain(&mut rng, n_ops, pat);
                (t, s, format!("chain{n_ops}-{pat}"))
            }
            "bigsoup" => {
                let l = rng.random_range(200..=1000);
                let (t, s) = gen_soup(&mut rng, l);
                (t, s, "bigsoup".to_string())
            }
            "bigwf" => {
                // up to ~1000 tokens, well-formed, with deep nesting mixed in
                let nops = rng.random_range(150..=330);
                let (t, s) = gen_case(&mut rng, nops, 20, 0, 0.2, 0.25);
                (t, s, format!("bigwf{nops}"))
            }
            "soup" => {
                let l = rng.random_range(1..=30);
                let (t, s) = gen_soup(&mut rng, l);
                (t, s, "soup".to_string())
            }
            "mutant" if i == 0 => {
                // fixed first case: a text in binary function style without parentheses on which the two parsers disagree
                // (known finding F13), so that every run exercises its classification
                let t = vec![
                    OpDesc { name: intern(">"), bin: true, un: false, constant: false, prio: 0, comm: false },
                    OpDesc { name: intern("+"), bin: true, un: true, constant: false, prio: 5, comm: false },
                ];
                (t, ">(a0 +b7 )+ c 1".to_string(), "mutant-f13".to_string())
            }
            "mutant" => {
                let (t, s) = gen_mutant(&mut rng);
                (t, s, "mutant".to_string())
            }
            "nested" => {
                let d = rng.random_range(20..=100);
                let (t, s) = gen_nested(&mut rng, d);
                (t, s, format!("nested{d}"))
            }
            _ => {
                let nops = if i % 7 == 0 { *[32usize, 33, 63, 64, 65, 66, 127, 128, 129].choose(&mut rng).unwrap().min(&hi.max(66)) } else { rng.random_range(lo..=hi) };
                let nv = *[0usize, 1, 2, 3, 5, 15, 16, 17, 40].choose(&mut rng).unwrap();
                let shape = rng.random_range(0..3);
                let p_un = *[0.0, 0.1, 0.3].choose(&mut rng).unwrap();
                let p_red = *[0.0, 0.05, 0.2].choose(&mut rng).unwrap();
                let (t, s) = gen_case(&mut rng, nops, nv, shape, p_un, p_red);
                (t, s, format!("rnd{nops}"))
            }
        };
        let mut rec = json!({"table": table_to_json(&tab), "text": cps(&text), "expect": "any", "tag": tag});
        if family.ends_with("-val") {
            rec["semtab"] = json!("val");
        }
        let _ = writeln!(out, "{rec}");
    }
    0
}
