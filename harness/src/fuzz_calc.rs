//! Seeded generators of calculus sessions (direction B): programs typed by base point for the derivative
//! judge, polynomial programs with index sequences, random operator/substitution/printing histories.
//! They only produce scripts; the judge derives every expectation from the script itself.
use crate::fuzz::real_table;
use crate::sym::{sem_of, Rat};
use crate::term::cps;
use crate::util::{seed, Opts};
use rand::rngs::StdRng;
use rand::seq::{IndexedRandom, SliceRandom};
use rand::{Rng, SeedableRng};
use serde_json::{json, Value};
use std::io::Write;

pub fn float_table_json() -> Value {
    Value::Array(
        real_table("float")
            .iter()
            .map(|o| {
                json!({"name": cps(o.name), "bin": o.bin, "un": o.un, "const": o.constant, "prio": o.prio, "comm": o.comm,
                       "sem": if o.bin { sem_of(o.name, true) } else { "" }, "usem": if o.un { sem_of(o.name, false) } else { "" }})
            })
            .collect(),
    )
}

fn radd(a: Rat, b: Rat) -> Option<Rat> { Rat::new(a.n.checked_mul(b.d)?.checked_add(b.n.checked_mul(a.d)?)?, a.d.checked_mul(b.d)?) }
fn rsub(a: Rat, b: Rat) -> Option<Rat> { radd(a, Rat { n: -b.n, d: b.d }) }
fn rmul(a: Rat, b: Rat) -> Option<Rat> { Rat::new(a.n.checked_mul(b.n)?, a.d.checked_mul(b.d)?) }
fn rdiv(a: Rat, b: Rat) -> Option<Rat> { if b.n == 0 { None } else { Rat::new(a.n.checked_mul(b.d)?, a.d.checked_mul(b.n)?) } }
fn small(r: Rat) -> bool { r.n.abs() < 2000 && r.d < 2000 }
fn rtext(r: Rat) -> String {
    // always an operand on its own: parenthesised if it is a quotient or negative
    if r.d == 1 && r.n >= 0 { format!("{}", r.n) } else if r.d == 1 { format!("(0-{})", -r.n) } else if r.n >= 0 { format!("({}/{})", r.n, r.d) } else { format!("(0-{}/{})", -r.n, r.d) }
}

const FNS: &[(&str, i128, i128, Option<(i128, i128)>)] = &[
    // name, base point n/d, value at the base point (None: irrational)
    ("sin", 0, 1, Some((0, 1))), ("cos", 0, 1, Some((1, 1))), ("tan", 0, 1, Some((0, 1))), ("asin", 0, 1, Some((0, 1))),
    ("acos", 0, 1, None), ("atan", 0, 1, Some((0, 1))), ("sinh", 0, 1, Some((0, 1))), ("cosh", 0, 1, Some((1, 1))),
    ("tanh", 0, 1, Some((0, 1))), ("asinh", 0, 1, Some((0, 1))), ("acosh", 5, 4, None), ("atanh", 0, 1, Some((0, 1))),
    ("exp", 0, 1, Some((1, 1))), ("ln", 1, 1, Some((0, 1))), ("log", 1, 1, Some((0, 1))), ("log2", 1, 1, Some((0, 1))),
    ("log10", 1, 1, Some((0, 1))), ("sqrt", 1, 1, Some((1, 1))),
];

struct TG<'a> {
    rng: &'a mut StdRng,
    vars: Vec<(String, Rat)>,
    p_fn: f64,
}
impl TG<'_> {
    /// returns (text, exact value at the point if rational and small)
    fn gen(&mut self, depth: u32) -> (String, Option<Rat>) {
        if depth == 0 || self.rng.random_bool(0.25) {
            return if self.rng.random_bool(0.65) {
                let (n, v) = self.vars.choose(self.rng).unwrap().clone();
                (n, Some(v))
            } else {
                let v = *[Rat::int(1), Rat::int(2), Rat::int(3), Rat { n: 1, d: 2 }, Rat { n: 5, d: 2 }].choose(self.rng).unwrap();
                (if v.d == 1 { format!("{}", v.n) } else { format!("{}", v.n as f64 / v.d as f64) }, Some(v))
            };
        }
        if self.rng.random_bool(self.p_fn) {
            // f(arg - c + base): the argument is moved onto the base point of f
            let (name, bn, bd, val) = *FNS.choose(self.rng).unwrap();
            for _ in 0..6 {
                let (a, av) = self.gen(depth - 1);
                if let Some(c) = av {
                    let base = Rat { n: bn, d: bd };
                    let shift = rsub(base, c).filter(|s| small(*s));
                    if let Some(s) = shift {
                        let arg = if s.n == 0 { a } else if s.n > 0 { format!("{a} + {}", rtext(s)) } else { format!("{a} - {}", rtext(Rat { n: -s.n, d: s.d })) };
                        // base point 0: the negated argument is on the base point as well (`cos(-(x))`: sign innermost in the chain)
                        let arg = if bn == 0 && self.rng.random_bool(0.25) { format!("-({arg})") } else { arg };
                        let v = val.map(|(n, d)| Rat { n, d });
                        // unary signs directly in front of the function (one unary chain in the flat form)
                        return match self.rng.random_range(0..6) {
                            0 => (format!("+{name}({arg})"), v),
                            1 => (format!("-{name}({arg})"), v.map(|r| Rat { n: -r.n, d: r.d })),
                            2 => (format!("-+{name}({arg})"), v.map(|r| Rat { n: -r.n, d: r.d })),
                            _ => (format!("{name}({arg})"), v),
                        };
                    }
                }
            }
            return self.gen(0);
        }
        if self.rng.random_bool(0.12) {
            // a sign in front of a sub-expression (`cos(-x)`: the sign is the innermost operator of a unary chain)
            let (a, av) = self.gen(depth - 1);
            return if self.rng.random_bool(0.75) { (format!("-{a}"), av.map(|r| Rat { n: -r.n, d: r.d })) } else { (format!("+{a}"), av) };
        }
        if self.rng.random_bool(0.2) {
            // one level without inner parentheses: `1 / x / z`, `a * b / c * d`, `a - b + c - d` (left to right among equal
            // priorities); operands are atoms or parenthesised sub-expressions, a literal 1 often comes first
            let k = self.rng.random_range(2..=4);
            let muldiv = self.rng.random_bool(0.6);
            let all_div = self.rng.random_bool(0.5);       // `1 / x / z`: reciprocal chains
            let mut text = String::new();
            let mut acc: Option<Rat> = None;
            for j in 0..k {
                let (a, av) = if j == 0 && self.rng.random_bool(0.4) {
                    ("1".to_string(), Some(Rat::int(1)))
                } else if self.rng.random_bool(0.3) {
                    let (a, av) = self.gen(depth - 1);
                    (format!("({a})"), av)
                } else {
                    self.gen(0)
                };
                if j == 0 {
                    text = a;
                    acc = av;
                    continue;
                }
                let second = self.rng.random_bool(0.5) || (muldiv && all_div);
                if muldiv {
                    match av {
                        Some(b) if b.n != 0 && second => { text = format!("{text} / {a}"); acc = acc.and_then(|x| rdiv(x, b)).filter(|v| small(*v)); }
                        _ => { text = format!("{text} * {a}"); acc = acc.zip(av).and_then(|(x, y)| rmul(x, y)).filter(|v| small(*v)); }
                    }
                } else if second {
                    text = format!("{text} - {a}"); acc = acc.zip(av).and_then(|(x, y)| rsub(x, y)).filter(|v| small(*v));
                } else {
                    text = format!("{text} + {a}"); acc = acc.zip(av).and_then(|(x, y)| radd(x, y)).filter(|v| small(*v));
                }
            }
            return (format!("({text})"), acc);
        }
        let (l, lv) = self.gen(depth - 1);
        let (r, rv) = self.gen(depth - 1);
        let both = lv.zip(rv);
        match self.rng.random_range(0..6) {
            0 => (format!("({l} + {r})"), both.and_then(|(a, b)| radd(a, b)).filter(|v| small(*v))),
            1 => (format!("({l} - {r})"), both.and_then(|(a, b)| rsub(a, b)).filter(|v| small(*v))),
            2 => (format!("({l}) * ({r})"), both.and_then(|(a, b)| rmul(a, b)).filter(|v| small(*v))),
            3 => match rv {
                // the divisor must be known and non-zero at the point
                Some(b) if b.n != 0 => (format!("({l}) / ({r})"), lv.and_then(|a| rdiv(a, b)).filter(|v| small(*v))),
                _ => (format!("({l} + {r})"), both.and_then(|(a, b)| radd(a, b)).filter(|v| small(*v))),
            },
            4 => {
                let n = self.rng.random_range(0..=3);
                let mut v = lv;
                let mut acc = Some(Rat::int(1));
                for _ in 0..n {
                    acc = acc.zip(v).and_then(|(x, y)| rmul(x, y));
                }
                v = acc.filter(|x| small(*x));
                // 0^0 is rejected by exmex's pow; keep away from it
                if n == 0 && lv.map(|x| x.n == 0).unwrap_or(true) { (format!("({l})^2"), lv.and_then(|a| rmul(a, a)).filter(|x| small(*x))) } else { (format!("({l})^{n}"), v) }
            }
            _ => match lv {
                // a power of an even power with a non-integer exponent: the outer base is 1 also where the inner base is -1
                Some(c) if c.d == 1 && (c.n == 1 || c.n == -1) && self.rng.random_bool(0.5) => {
                    let m = *[2, 4].choose(self.rng).unwrap();
                    let e = *["0.5", "1.5", "2.5", "0.75"].choose(self.rng).unwrap();
                    (format!("(({l})^{m})^{e}"), Some(Rat::int(1)))
                }
                // general power: the base is moved to 1
                Some(c) => {
                    let s = rsub(Rat::int(1), c).filter(|s| small(*s));
                    match s {
                        Some(s) => {
                            let base = if s.n == 0 { l } else if s.n > 0 { format!("{l} + {}", rtext(s)) } else { format!("{l} - {}", rtext(Rat { n: -s.n, d: s.d })) };
                            (format!("({base})^({r})"), Some(Rat::int(1)))
                        }
                        None => (format!("({l} + {r})"), both.and_then(|(a, b)| radd(a, b)).filter(|v| small(*v))),
                    }
                }
                None => (format!("({l} - {r})"), None),
            },
        }
    }
}

fn point_json(vars: &[(String, Rat)]) -> Value {
    Value::Array(vars.iter().map(|(n, v)| json!([cps(n), v.n as i64, v.d as i64])).collect())
}

fn gen_vars(rng: &mut StdRng, n: usize) -> Vec<(String, Rat)> {
    let pts = [Rat::int(0), Rat::int(1), Rat::int(-1), Rat { n: 1, d: 2 }, Rat::int(2), Rat::int(3), Rat { n: 1, d: 3 }, Rat { n: 5, d: 4 }, Rat { n: -3, d: 2 }];
    let names = ["x", "y", "z", "w", "a1", "α"];
    (0..n).map(|i| (names[i].to_string(), *pts.choose(rng).unwrap())).collect()
}

fn typed(rng: &mut StdRng) -> Value {
    let nv = rng.random_range(1..=3);
    let vars = gen_vars(rng, nv);
    let depth = rng.random_range(1..=4);
    let p_fn = *[0.2, 0.4, 0.6].choose(rng).unwrap();
    let (text, _) = TG { rng, vars: vars.clone(), p_fn }.gen(depth);
    // which variables occur is decided by the parser; indices beyond the list give errors, which is fine
    let mut steps = vec![];
    let forms = ["flat", "deep", "flat_wo"];
    let seeds: Vec<Value> = forms.iter().map(|f| json!({"text": cps(&text), "form": f})).collect();
    let mut next = seeds.len() + 1;
    for seed_i in 1..=seeds.len() {
        for k in 0..nv {
            steps.push(json!({"act": "partial", "i": seed_i, "k": k}));
            let first = next;
            next += 1;
            if rng.random_bool(0.4) {
                // the printed derivative must parse back to the same function (C12)
                steps.push(json!({"act": if rng.random_bool(0.5) { "reparse" } else { "serde" }, "i": first}));
                next += 1;
            }
            if rng.random_bool(0.5) {
                // a derivative of a derivative, also after a conversion
                let kk = rng.random_range(0..nv);
                if rng.random_bool(0.5) {
                    steps.push(json!({"act": if rng.random_bool(0.5) { "to_deep" } else { "to_flat" }, "i": first}));
                    next += 1;
                    steps.push(json!({"act": "partial", "i": next - 1, "k": kk}));
                } else {
                    steps.push(json!({"act": "partial", "i": first, "k": kk}));
                }
                next += 1;
            }
        }
    }
    json!({"seeds": seeds, "steps": steps, "point": point_json(&vars), "tag": "typed"})
}

/// polynomial / rational programs: always conclusive for the series judge; index sequences of length 0..4
fn poly(rng: &mut StdRng) -> Value {
    let nv = rng.random_range(1..=3);
    let vars = gen_vars(rng, nv);
    let depth = rng.random_range(1..=3);
    let (text, _) = TG { rng, vars: vars.clone(), p_fn: 0.0 }.gen(depth);
    let seeds = vec![json!({"text": cps(&text), "form": "flat"}), json!({"text": cps(&text), "form": "deep"})];
    let mut steps = vec![];
    for seed_i in 1..=2 {
        for _ in 0..4 {
            let len = rng.random_range(0..=4);
            let ks: Vec<usize> = (0..len).map(|_| rng.random_range(0..nv + 2)).collect();
            steps.push(json!({"act": "partial_iter", "i": seed_i, "ks": ks}));
            let k = rng.random_range(0..nv + 1);
            let n = rng.random_range(0..=3);
            steps.push(json!({"act": "partial_nth", "i": seed_i, "k": k, "n": n}));
        }
        steps.push(json!({"act": "partial", "i": seed_i, "k": rng.random_range(0..nv + 2)}));
    }
    json!({"seeds": seeds, "steps": steps, "point": point_json(&vars), "tag": "poly"})
}

fn seed_texts(rng: &mut StdRng, chains: bool) -> Vec<String> {
    let pool = ["x", "y", "x+y", "2*x", "x*y-1", "z", "0", "1", "0.0", "1.0", "sin(x)", "x^2", "(x+1)/(y-2)", "3", "-x", "a*b", "x-x", "2/4", "{v w}+1", "abs(y)", "x/y/z",
                "sin(cos(x))", "-sin(x*y)", "+cos(ln(z))", "exp(sin(cos(y)))", "tan(x)*0", "z*0", "0*(a+b)", "sin(y)", "sqrt(exp(x))",
                // constants that are a unary operator around a parenthesised / folded 0 or 1 (neutral-element tests must see the operator)
                "-((1))", "cos((0))", "-(cos(0))", "exp((0))", "-(-(1))", "sin((1))*1"];
    let n = rng.random_range(2..=6);
    (0..n).map(|_| if chains && rng.random_bool(0.12) { chain_seed(rng) } else { pool.choose(rng).unwrap().to_string() }).collect()
}

/// one long level without parentheses: 22..45 operands, operators with priority ties (`+`, `min`, `max` share a
/// priority in the float table) mixed with higher priorities, so that the order among equal priorities matters
fn chain_seed(rng: &mut StdRng) -> String {
    let n = rng.random_range(22..=45);
    let ops = ["+", "+", "+", " min ", " min ", " max ", "-", "-", "*", "*", "/"];
    let vars = ["x", "y", "z", "a", "b"];
    let mut s = String::new();
    for i in 0..n {
        if i > 0 {
            s.push_str(ops.choose(rng).unwrap());
        }
        if rng.random_bool(0.6) { s.push_str(vars.choose(rng).unwrap()) } else { s.push_str(&rng.random_range(1..=9).to_string()) }
    }
    s
}

fn ops(rng: &mut StdRng, with: &[&str]) -> Value {
    // long one-level chains only where printing is what is exercised (substituting them into each other explodes)
    let texts = seed_texts(rng, with.iter().filter(|w| **w == "print").count() >= 2);
    let seeds: Vec<Value> = texts.iter().map(|t| json!({"text": cps(t), "form": if rng.random_bool(0.5) { "flat" } else { "deep" }})).collect();
    let mut size = seeds.len();
    let n_steps = rng.random_range(3..=14);
    let un = ["sin", "cos", "-", "+", "abs", "ln", "exp", "sqrt", "nosuch", "*", "atan2", "π"];
    let bi = ["+", "-", "*", "/", "^", "atan2", "min", "max", "nosuch", "sin"];
    let std_b = ["add", "sub", "mul", "div", "pow"];
    let std_u = ["neg", "abs", "sin", "cos", "tan", "sinh", "cosh", "tanh", "asin", "acos", "atan", "signum", "log", "log2", "log10", "ln", "round", "floor", "ceil", "exp", "sqrt", "cbrt", "fract", "trunc"];
    let names = ["x", "y", "z", "a", "b", "v w"];
    let mut steps = vec![];
    // "tower": every call works on the result of the previous one (repeated flat -> deep -> flat round trips of one value)
    let tower = !with.contains(&"subs") && rng.random_bool(0.3);      // substituting a tower into itself explodes
    for _ in 0..n_steps {
        let i = if tower && !steps.is_empty() { size } else { rng.random_range(1..=size) };
        let j = if tower && rng.random_bool(0.3) { size } else { rng.random_range(1..=size) };
        let kind = *with.choose(rng).unwrap();
        let st = match kind {
            "op" => {
                if rng.random_bool(0.4) { json!({"act": "op_un", "i": i, "name": cps(un.choose(rng).unwrap())}) } else { json!({"act": "op_bin", "i": i, "j": j, "name": cps(bi.choose(rng).unwrap())}) }
            }
            "std" => {
                if rng.random_bool(0.6) { json!({"act": "std", "op": std_b.choose(rng).unwrap(), "i": i, "j": j}) } else { json!({"act": "std", "op": std_u.choose(rng).unwrap(), "i": i}) }
            }
            "conv" => json!({"act": if rng.random_bool(0.5) { "to_deep" } else { "to_flat" }, "i": i}),
            "subs" => {
                let m: Vec<Value> = (0..rng.random_range(0..=3)).map(|_| json!([cps(names.choose(rng).unwrap()), rng.random_range(1..=size)])).collect();
                json!({"act": "subs", "i": i, "map": m})
            }
            "print" => json!({"act": if rng.random_bool(0.6) { "reparse" } else { "serde" }, "i": i}),
            _ => json!({"act": "partial", "i": i, "k": rng.random_range(0..3)}),
        };
        steps.push(st);
        size += 1;
    }
    json!({"seeds": seeds, "steps": steps, "tag": "ops"})
}

/// operator application / substitution on expressions with many variables (merged lists beyond the inline capacity of 16)
fn manyvars(rng: &mut StdRng) -> Value {
    if rng.random_bool(0.05) {       // ~10 s of TLC per session: a handful per stream
        return hugevars(rng);
    }
    let mut pool: Vec<String> = vec![];
    for i in 0..20 { pool.push(format!("v{i:02}")); }
    for i in 0..12 { pool.push(format!("a{i:02}")); }
    for n in ["B", "Z9", "_u", "x", "y", "zz", "α", "ω2"] { pool.push(n.to_string()); }
    let nseeds = rng.random_range(2..=4);
    let mut seeds = vec![];
    for _ in 0..nseeds {
        let k = rng.random_range(3..=24);
        let mut names = pool.clone();
        names.shuffle(rng);
        names.truncate(k);
        let mut s = String::new();
        for (i, n) in names.iter().enumerate() {
            if i > 0 { s.push_str(["+", "*", "-", "+"].choose(rng).unwrap()); }
            s.push_str(n);
            if rng.random_bool(0.15) { s.push_str(&format!("*{}", names.choose(rng).unwrap())); }
        }
        seeds.push(json!({"text": cps(&s), "form": if rng.random_bool(0.6) { "flat" } else { "deep" }}));
    }
    let mut size = seeds.len();
    let mut steps = vec![];
    for _ in 0..rng.random_range(2..=6) {
        let i = rng.random_range(1..=size);
        let j = rng.random_range(1..=size);
        let st = match rng.random_range(0..8) {
            0 | 1 | 2 => json!({"act": "op_bin", "i": i, "j": j, "name": cps(["+", "*", "-", "/"].choose(rng).unwrap())}),
            3 | 4 => {
                let op = *["add", "mul", "sub", "div"].choose(rng).unwrap();
                json!({"act": "std", "op": op, "i": i, "j": j})
            }
            5 => {
                let m: Vec<Value> = (0..rng.random_range(1..=3)).map(|_| json!([cps(pool.choose(rng).unwrap()), rng.random_range(1..=size)])).collect();
                json!({"act": "subs", "i": i, "map": m})
            }
            6 => json!({"act": if rng.random_bool(0.5) { "to_deep" } else { "to_flat" }, "i": i}),
            _ => json!({"act": "op_un", "i": i, "name": cps(["-", "sin", "+"].choose(rng).unwrap())}),
        };
        steps.push(st);
        size += 1;
    }
    json!({"seeds": seeds, "steps": steps, "tag": "manyvars"})
}

/// operator application on derivatives: a derivative keeps the variable list of its antiderivative although it may be a
/// single node (`d/dx (x*y+z) = y` over [x, y, z], `d/dz = 1`), so the operands of the following calls list variables
/// that do not occur in them
fn dvars(rng: &mut StdRng) -> Value {
    let pool: [(&str, usize); 8] = [("x*y+z", 3), ("x+y+z", 3), ("2*x+y", 2), ("a*b+c", 3), ("x*y", 2), ("u+v*3", 2), ("x+b", 2), ("q*r*1+s", 3)];
    let mut seeds = vec![];
    let mut nvars = vec![];
    for _ in 0..rng.random_range(1..=3) {
        let (t, n) = *pool.choose(rng).unwrap();
        seeds.push(json!({"text": cps(t), "form": if rng.random_bool(0.3) { "flat" } else { "deep" }}));
        nvars.push(n);
    }
    for t in ["2", "x", "1"] {
        seeds.push(json!({"text": cps(t), "form": if rng.random_bool(0.3) { "flat" } else { "deep" }}));
    }
    let nd = nvars.len();
    let mut size = seeds.len();
    let mut steps = vec![];
    let mut derived = vec![];
    for _ in 0..rng.random_range(1..=3) {
        let i = rng.random_range(1..=nd);
        steps.push(json!({"act": "partial", "i": i, "k": rng.random_range(0..nvars[i - 1])}));
        size += 1;
        derived.push(size);
    }
    for _ in 0..rng.random_range(2..=4) {
        let i = *derived.choose(rng).unwrap();
        let j = if rng.random_bool(0.5) { *derived.choose(rng).unwrap() } else { rng.random_range(nd + 1..=nd + 3) };
        let (i, j) = if rng.random_bool(0.5) { (i, j) } else { (j, i) };
        let st = if rng.random_bool(0.5) {
            json!({"act": "op_bin", "i": i, "j": j, "name": cps(["+", "*", "-", "/"].choose(rng).unwrap())})
        } else {
            let op = *["add", "mul", "sub", "div"].choose(rng).unwrap();
            json!({"act": "std", "op": op, "i": i, "j": j})
        };
        steps.push(st);
        size += 1;
        if rng.random_bool(0.5) { derived.push(size); }
    }
    json!({"seeds": seeds, "steps": steps, "tag": "dvars"})
}

/// immutability of pool entries: long one-level expressions (more operators than any inline capacity) are cloned and the
/// clone is changed (substitution by numbers so that folding shortens it, conversion, operator application, differentiation);
/// at the end every entry is observed once more (`final`)
fn immut(rng: &mut StdRng) -> Value {
    let mut seeds = vec![];
    for form in ["deep", "flat", "deep"] {
        seeds.push(json!({"text": cps(&chain_seed(rng)), "form": form}));
    }
    for t in ["3", "2", "x+1"] {
        seeds.push(json!({"text": cps(t), "form": if rng.random_bool(0.5) { "flat" } else { "deep" }}));
    }
    let mut size = seeds.len();
    let mut steps = vec![];
    for _ in 0..rng.random_range(2..=5) {
        let i = if rng.random_bool(0.7) { rng.random_range(1..=3) } else { size };
        let st = match rng.random_range(0..8) {
            0 | 1 | 2 | 3 => {
                let mut ns = vec!["x", "y", "z", "a", "b"];
                ns.shuffle(rng);
                ns.truncate(rng.random_range(1..=4));
                let m: Vec<Value> = ns.iter().map(|n| json!([cps(n), rng.random_range(4..=5)])).collect();
                json!({"act": "subs", "i": i, "map": m})
            }
            4 => json!({"act": if rng.random_bool(0.5) { "to_deep" } else { "to_flat" }, "i": i}),
            5 => json!({"act": "partial", "i": i, "k": 0}),
            6 => json!({"act": "op_un", "i": i, "name": cps("-")}),
            _ => json!({"act": "op_bin", "i": i, "j": rng.random_range(4..=6), "name": cps(["+", "*", "-"].choose(rng).unwrap())}),
        };
        steps.push(st);
        size += 1;
    }
    json!({"seeds": seeds, "steps": steps, "tag": "immut", "final": true})
}

/// MissingOpMode: partial_relaxed on expressions with binary operators that have no differentiation rule (max, min, atan2)
fn relaxed(rng: &mut StdRng) -> Value {
    let pool = ["x max y", "x*y min z", "(x+1) max (y*2)", "sin(x) max y", "x atan2 y", "x*2 + (y max x)*z", "(x min y)/(z+1)", "x max y max z",
                "x*y+z", "cos(x*y) min (x-z)", "(x atan2 (y*z))*x", "x/y", "z"];
    let mut seeds = vec![];
    for _ in 0..rng.random_range(1..=3) {
        seeds.push(json!({"text": cps(pool.choose(rng).unwrap()), "form": if rng.random_bool(0.5) { "flat" } else { "deep" }}));
    }
    let mut size = seeds.len();
    let mut steps = vec![];
    for _ in 0..rng.random_range(2..=5) {
        let i = rng.random_range(1..=size);
        let st = if rng.random_bool(0.85) {
            let mode = *["per_operand", "none", "error", "per_operand", "none"].choose(rng).unwrap();
            json!({"act": "partial_relaxed", "i": i, "k": rng.random_range(0..4), "mode": mode})
        } else {
            json!({"act": if rng.random_bool(0.5) { "to_deep" } else { "to_flat" }, "i": i})
        };
        steps.push(st);
        size += 1;
    }
    json!({"seeds": seeds, "steps": steps, "tag": "relaxed"})
}

/// more variables than any fixed-width bookkeeping has bits for (129..200 distinct names in one expression): partial
/// substitution maps (some names replaced, some kept), conversion and operator application on the result
fn hugevars(rng: &mut StdRng) -> Value {
    let pool: Vec<String> = (0..210).map(|i| format!("w{i:03}")).collect();
    let k = *[129usize, 130, 140, 160, 192, 193, 200].choose(rng).unwrap();
    let mut names = pool.clone();
    names.shuffle(rng);
    names.truncate(k);
    let mut s = String::new();
    for (i, n) in names.iter().enumerate() {
        if i > 0 { s.push_str(["+", "-", "+"].choose(rng).unwrap()); }
        s.push_str(n);
        if rng.random_bool(0.2) { s.push_str(["*2", "*p", "*w000"].choose(rng).unwrap()); }
    }
    let mut seeds = vec![json!({"text": cps(&s), "form": if rng.random_bool(0.5) { "flat" } else { "deep" }})];
    for t in ["p+q", "3", "w001*2", "q-w209"] {
        seeds.push(json!({"text": cps(t), "form": if rng.random_bool(0.5) { "flat" } else { "deep" }}));
    }
    let mut size = seeds.len();
    let mut steps = vec![];
    for _ in 0..rng.random_range(1..=2) {
        let i = if rng.random_bool(0.7) { 1 } else { size };
        let st = match rng.random_range(0..6) {
            0 | 1 | 2 | 3 => {
                let mut ns = pool.clone();
                ns.shuffle(rng);
                ns.truncate(rng.random_range(1..=90));
                let m: Vec<Value> = ns.iter().map(|n| json!([cps(n), rng.random_range(2..=5)])).collect();
                json!({"act": "subs", "i": i, "map": m})
            }
            4 => json!({"act": if rng.random_bool(0.5) { "to_deep" } else { "to_flat" }, "i": i}),
            _ => json!({"act": "op_bin", "i": i, "j": rng.random_range(2..=5), "name": cps(["+", "*", "-"].choose(rng).unwrap())}),
        };
        steps.push(st);
        size += 1;
    }
    json!({"seeds": seeds, "steps": steps, "tag": "hugevars"})
}

/// composite expressions over the real float table with exact (dyadic) values: + - * / min max and signs, infix with and
/// without parentheses and in call form, nested; the point is dyadic so that f32/f64 compute without rounding (C19)
fn floatcomp(rng: &mut StdRng) -> Value {
    fn gen(rng: &mut StdRng, depth: u32) -> String {
        if depth == 0 || rng.random_bool(0.2) {
            return ["x", "y", "z", "1", "2", "3", "0.5", "0.25", "4", "1.5"].choose(rng).unwrap().to_string();
        }
        if rng.random_bool(0.12) {
            let a = gen(rng, depth - 1);
            return match rng.random_range(0..3) { 0 => format!("-({a})"), 1 => format!("+({a})"), _ => format!("-{a}") };
        }
        let op = *["+", "-", "*", "min", "max", "/", "+", "*", "min", "max"].choose(rng).unwrap();
        let (a, b) = (gen(rng, depth - 1), gen(rng, depth - 1));
        let b = if op == "/" { ["2", "4", "0.5"].choose(rng).unwrap().to_string() } else { b };
        match rng.random_range(0..10) {
            0..=3 => format!("{op}({a}, {b})"),                  // call form
            4 => format!("{op} ({a},{b})"),
            5..=7 => format!("({a}) {op} ({b})"),                // infix, parenthesised operands
            _ => format!("{a} {op} {b}"),                        // infix, precedence decides
        }
    }
    let pts = [(1i64, 1i64), (2, 1), (-1, 1), (1, 2), (3, 2), (-3, 4), (5, 4), (3, 1)];
    let point: Vec<Value> = ["x", "y", "z"].iter().map(|n| { let p = pts.choose(rng).unwrap(); json!([cps(n), p.0, p.1]) }).collect();
    let depth = rng.random_range(1..=4);
    json!({"text": cps(&gen(rng, depth)), "point": point, "tag": "floatcomp"})
}

pub fn val_table_json() -> Value {
    Value::Array(
        real_table("val")
            .iter()
            .map(|o| {
                let bsem = match o.name { ">" => "gt", "<" => "lt", ">=" => "ge", "<=" => "le", "==" => "eq", "!=" => "ne", "if" => "if", "else" => "else", n => sem_of(n, true) };
                json!({"name": cps(o.name), "bin": o.bin, "un": o.un, "const": o.constant, "prio": o.prio, "comm": o.comm,
                       "sem": if o.bin { bsem } else { "" }, "usem": if o.un { sem_of(o.name, false) } else { "" }})
            })
            .collect(),
    )
}

/// `f if cond else g`, nested, with arithmetic around; f, g typed by base point, cond a comparison of polynomials that is
/// not on its boundary at the point
fn valdiff(rng: &mut StdRng) -> Value {
    let nv = rng.random_range(1..=2);
    let pts = [Rat::int(0), Rat::int(1), Rat::int(-1), Rat { n: 1, d: 2 }, Rat::int(2), Rat::int(3), Rat { n: 5, d: 4 }, Rat { n: -3, d: 2 }];
    let names = ["x", "y"];
    let vars: Vec<(String, Rat)> = (0..nv).map(|i| (names[i].to_string(), *pts.choose(rng).unwrap())).collect();
    let float_only = rng.random_bool(0.7);
    fn piece(rng: &mut StdRng, vars: &[(String, Rat)], depth: u32, fns: bool) -> String {
        // elementary functions only in float-only programs: the value type refuses them on integers
        let p_fn = if fns { *[0.0, 0.3, 0.5].choose(rng).unwrap() } else { 0.0 };
        let d = rng.random_range(1..=2);
        let (body, _) = TG { rng, vars: vars.to_vec(), p_fn }.gen(d);
        if depth == 0 || rng.random_bool(0.3) {
            return body;
        }
        // "ramp" pieces (`x if x > 0 else 0`, `x + 3 if ... else 2`): slope exactly one in the selected branch, a constant in the other
        let ramp = rng.random_bool(0.2);
        let body = if ramp {
            let v = &vars.choose(rng).unwrap().0;
            match rng.random_range(0..3) { 0 => v.clone(), 1 => format!("{v} + {}", rng.random_range(1..4)), _ => format!("{} + {v}", rng.random_range(1..4)) }
        } else {
            body
        };
        // condition: polynomial cmp polynomial, strictly decided at the point
        for _ in 0..10 {
            let (l, lv) = TG { rng, vars: vars.to_vec(), p_fn: 0.0 }.gen(1);
            let (r, rv) = TG { rng, vars: vars.to_vec(), p_fn: 0.0 }.gen(1);
            if l.contains('/') || r.contains('/') || l.contains('^') || r.contains('^') {
                continue;
            }
            if let (Some(a), Some(b)) = (lv, rv) {
                if a != b {
                    let cmp = *[">", "<", ">=", "<=", "==", "!="].choose(rng).unwrap();
                    let other = if ramp { format!("{}", rng.random_range(0..3)) } else { piece(rng, vars, depth - 1, fns) };
                    // half of the conditions without parentheses around the operands: arithmetic and comparison then share
                    // one nesting level of the deep form (`x - 1 > 0`)
                    fn strip_outer(s: &str) -> &str {
                        if !s.starts_with('(') { return s; }
                        let mut depth = 0;
                        for (i, c) in s.char_indices() {
                            match c { '(' => depth += 1, ')' => { depth -= 1; if depth == 0 { return if i == s.len() - 1 { &s[1..i] } else { s }; } } _ => {} }
                        }
                        s
                    }
                    let wrapped = if rng.random_bool(0.5) {
                        format!("(({body}) if {} {cmp} {} else ({other}))", strip_outer(&l), strip_outer(&r))
                    } else {
                        format!("(({body}) if ({l}) {cmp} ({r}) else ({other}))")
                    };
                    return match rng.random_range(0..4) {
                        0 => format!("{wrapped} * ({})", vars[0].0),
                        1 => format!("2.5 + {wrapped}"),
                        _ => wrapped,
                    };
                }
            }
        }
        body
    }
    let depth0 = rng.random_range(1..=3);
    let mut text = piece(rng, &vars, depth0, float_only);
    if float_only {
        // every integer literal becomes a float literal
        let mut out = String::new();
        let cs: Vec<char> = text.chars().collect();
        let mut i = 0;
        while i < cs.len() {
            if cs[i].is_ascii_digit() && (i == 0 || !(cs[i - 1].is_ascii_alphanumeric() || cs[i - 1] == '.')) {
                let mut j = i;
                while j < cs.len() && (cs[j].is_ascii_digit() || cs[j] == '.') {
                    j += 1;
                }
                let lit: String = cs[i..j].iter().collect();
                out.push_str(&lit);
                if !lit.contains('.') {
                    out.push_str(".0");
                }
                i = j;
            } else {
                out.push(cs[i]);
                i += 1;
            }
        }
        text = out;
    }
    json!({"text": cps(&text), "nvars": nv, "point": point_json(&vars), "float_only": float_only, "tag": "valdiff"})
}

/// tables whose alphabetic names collide when written without separators (binary `lo` + unary `g` = `log`, ...)
fn advnames(rng: &mut StdRng) -> Value {
    use crate::dynops::{intern, OpDesc};
    let mut tab: Vec<OpDesc> = vec![];
    let mut add = |name: &str, bin: bool, un: bool, prio: i64, comm: bool| {
        tab.push(OpDesc { name: intern(name), bin, un, constant: false, prio, comm });
    };
    let bins = ["a", "s", "lo", "mn", "min", "at", "si"];
    let uns = ["b", "ab", "in", "g", "sn", "an", "n", "log", "sin", "atan"];
    for b in bins.iter() {
        if rng.random_bool(0.6) {
            let p = *[0i64, 5, 50].choose(rng).unwrap();
            let c = rng.random_bool(0.3);
            add(b, true, false, p, c);
        }
    }
    add("+", true, true, 0, true);
    add("*", true, false, 50, true);
    add("-", true, true, 1, false);
    for u in uns.iter() {
        if rng.random_bool(0.6) {
            add(u, false, true, 0, false);
        }
    }
    // a constant, and the table in random order: constants and unary-only operators may stand in front of binary ones
    // (the shipped tables list binary operators first and constants last; positions in the table are operator identities)
    if rng.random_bool(0.6) {
        tab.push(OpDesc { name: intern("Kc"), bin: false, un: false, constant: true, prio: 0, comm: false });
    }
    tab.shuffle(rng);
    let table = Value::Array(tab.iter().map(|o| json!({"name": cps(o.name), "bin": o.bin, "un": o.un, "const": o.constant, "prio": o.prio,
        "comm": o.comm, "sem": if o.bin { sem_of(o.name, true) } else { "" }, "usem": if o.un { sem_of(o.name, false) } else { "" }})).collect());
    let mut seeds = vec![];
    for _ in 0..rng.random_range(2..=4) {
        let n = rng.random_range(1..=5);
        let (toks, _) = crate::fuzz::gen_toks(rng, &tab, n, 3, 0, 0.35, 0.1, true);
        let text = crate::fuzz::to_text(rng, &toks, 1.0);
        seeds.push(json!({"text": cps(&text), "form": if rng.random_bool(0.5) { "flat" } else { "deep" }}));
    }
    let mut size = seeds.len();
    let mut steps = vec![];
    for _ in 0..rng.random_range(3..=8) {
        let i = rng.random_range(1..=size);
        let j = rng.random_range(1..=size);
        let st = match rng.random_range(0..6) {
            0 => json!({"act": "to_deep", "i": i}),
            1 => json!({"act": "to_flat", "i": i}),
            2 => json!({"act": "op_bin", "i": i, "j": j, "name": cps(tab.iter().filter(|o| o.bin).map(|o| o.name).collect::<Vec<_>>().choose(rng).unwrap())}),
            3 => json!({"act": "op_un", "i": i, "name": cps(tab.iter().filter(|o| o.un).map(|o| o.name).collect::<Vec<_>>().choose(rng).unwrap())}),
            4 => json!({"act": "serde", "i": i}),
            _ => json!({"act": "reparse", "i": i}),
        };
        steps.push(st);
        size += 1;
    }
    json!({"table": table, "seeds": seeds, "steps": steps, "tag": "advnames"})
}

pub fn main(args: &[String]) -> i32 {
    let o = Opts::parse(args);
    let n = o.num("n", 100);
    let stream = o.num("stream", 0);
    let family = o.get("family").unwrap_or("typed").to_string();
    let mut rng = StdRng::seed_from_u64(seed().wrapping_mul(0x9E3779B97F4A7C15).wrapping_add(1000 + stream));
    let stdout = std::io::stdout();
    let mut out = std::io::BufWriter::new(stdout.lock());
    let _ = writeln!(out, "{}", json!({"table": if family == "valdiff" { val_table_json() } else { float_table_json() }}));
    for _ in 0..n {
        let rec = match family.as_str() {
            "typed" => typed(&mut rng),
            "poly" => poly(&mut rng),
            "ops" => ops(&mut rng, &["op", "std", "conv"]),
            "subs" => ops(&mut rng, &["subs", "subs", "conv", "op"]),
            "print" => ops(&mut rng, &["print", "op", "std", "subs", "conv", "partial", "print"]),
            "advnames" => advnames(&mut rng),
            "manyvars" => manyvars(&mut rng),
            "dvars" => dvars(&mut rng),
            "immut" => immut(&mut rng),
            "relaxed" => relaxed(&mut rng),
            "floatcomp" => floatcomp(&mut rng),
            "valdiff" => valdiff(&mut rng),
            _ => ops(&mut rng, &["op", "std", "conv", "subs", "print", "partial"]),
        };
        let _ = writeln!(out, "{rec}");
    }
    0
}
