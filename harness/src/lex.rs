//! Replay of texts through the real tokenizer (re-exported by the cfg(exmex_verif) hook) and the
//! precondition check.
use crate::dynops::{self, DynOps};
use crate::term::{cps, uncps, Term, TermMatcher};
use crate::util::{for_each_record, guarded, Opts};
use exmex::verif::{check_parsed_token_preconditions, tokenize_and_analyze, Paren, ParsedToken};
use exmex::{MakeOperators, MatchLiteral};
use serde_json::{json, Value};
use std::io::Write;

pub fn tokens_json(text: &str) -> Value {
    let ops = DynOps::make();
    let r = guarded(|| {
        tokenize_and_analyze::<Term, _>(text, &ops, TermMatcher::is_literal).map(|toks| {
            let pre = check_parsed_token_preconditions(&toks).is_ok();
            let js: Vec<Value> = toks
                .iter()
                .map(|t| match t {
                    ParsedToken::Num(Term::Num(s)) => json!({"t": "num", "v": cps(s)}),
                    ParsedToken::Num(Term::Const(i)) => json!({"t": "const", "v": i + 1}),
                    ParsedToken::Num(other) => json!({"t": "num", "v": cps(&format!("{other:?}"))}),
                    ParsedToken::Paren(Paren::Open) => json!({"t": "open", "v": 0}),
                    ParsedToken::Paren(Paren::Close) => json!({"t": "close", "v": 0}),
                    ParsedToken::Op((i, _)) => json!({"t": "op", "v": i + 1}),
                    ParsedToken::Var(v) => json!({"t": "var", "v": cps(v)}),
                })
                .collect();
            (js, pre)
        })
    });
    match r {
        Err(p) => json!({"st": "panic", "msg": p.chars().filter(|c| c.is_ascii() && *c != '"' && *c != '\\').take(120).collect::<String>()}),
        Ok(Err(_)) => json!({"st": "err"}),
        Ok(Ok((toks, pre))) => json!({"st": "ok", "toks": toks, "pre": pre}),
    }
}

pub fn main(args: &[String]) -> i32 {
    let o = Opts::parse(args);
    let forward_all = o.has("forward-all");
    let mut logf: Option<std::fs::File> = o.get("tlc-log").map(|p| std::fs::File::create(p).expect("log file"));
    let stdin = std::io::stdin();
    let stdout = std::io::stdout();
    let mut out = std::io::BufWriter::new(stdout.lock());
    let (mut n, mut ident, mut fwd) = (0u64, 0u64, 0u64);
    let mut sts: std::collections::BTreeMap<String, u64> = Default::default();
    for_each_record(stdin.lock(), logf.as_mut().map(|f| f as &mut dyn Write), |rec| {
        if let Some(t) = rec.get("table") {
            dynops::set_table(dynops::table_from_json(t));
            if rec.get("text").is_none() {
                let _ = writeln!(out, "{}", json!({"table": t}));
                return;
            }
        }
        let Some(tv) = rec.get("text") else { return };
        n += 1;
        let text = uncps(tv);
        let obs = tokens_json(&text);
        *sts.entry(obs["st"].as_str().unwrap_or("?").to_string()).or_insert(0) += 1;
        // identical to what TLC printed for the abstract lexer?
        let same = match rec.get("st").and_then(|s| s.as_str()) {
            Some("ok") => obs["st"] == "ok" && rec.get("toks") == obs.get("toks"),
            Some("err") => obs["st"] == "err",
            _ => false,
        };
        if same {
            ident += 1;
        }
        if !same || forward_all {
            fwd += 1;
            let mut m = obs.as_object().unwrap().clone();
            m.insert("case".into(), json!(n));
            m.insert("text".into(), tv.clone());
            if let Some(t) = rec.get("table") {
                m.insert("table".into(), t.clone());
            }
            let _ = writeln!(out, "{}", Value::Object(m));
        }
    });
    let _ = out.flush();
    let summary = json!({"cases": n, "identical": ident, "forwarded": fwd, "st": sts});
    if let Some(p) = o.get("summary") {
        std::fs::write(p, summary.to_string()).expect("summary");
    } else {
        eprintln!("{summary}");
    }
    0
}
