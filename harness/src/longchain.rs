//! One long unnested text (`x0 op x1 op ... op x{n-1}`) through one call sequence over the built-in tables; one case per
//! process, because what is observed here is whether the process survives (stack exhaustion aborts, it cannot be caught).
//! Prints {"n", "op", "act", "ty", "outcome"}; no output and a signal exit code = aborted.  Only records.
use crate::util::Opts;
use exmex::prelude::*;
use exmex::{DeepEx, FlatExVal, Val};
use serde_json::json;

thread_local! {
    static AGREE: std::cell::RefCell<Option<(u64, u64)>> = const { std::cell::RefCell::new(None) };
}

fn text(n: usize, op: &str) -> String {
    let mut s = String::new();
    for i in 0..n {
        if i > 0 {
            // "mix": descending-priority pattern `*`/`-` alternating, else the same operator throughout
            s.push_str(if op == "mix" { if i % 2 == 1 { "*" } else { "-" } } else { op });
        }
        s.push_str(&format!("x{i}"));
    }
    s
}

fn run_f64(s: &str, n: usize, act: &str) -> Result<(), String> {
    let vals: Vec<f64> = (0..n).map(|i| 1.0 + (i % 7) as f64 * 0.25).collect();
    let e = |x: exmex::ExError| x.to_string();
    match act {
        "parse_eval" => { FlatEx::<f64>::parse(s).map_err(e)?.eval(&vals).map_err(e)?; }
        "unparse" => { let f = FlatEx::<f64>::parse(s).map_err(e)?; let _ = f.unparse().len(); }
        "deep_parse_eval" => { DeepEx::<f64>::parse(s).map_err(e)?.eval(&vals).map_err(e)?; }
        "to_deep" => { FlatEx::<f64>::parse(s).map_err(e)?.to_deepex().map_err(e)?.eval(&vals).map_err(e)?; }
        "to_deep_unparse" => { let d = FlatEx::<f64>::parse(s).map_err(e)?.to_deepex().map_err(e)?; let _ = d.unparse().len(); }
        "deep_to_flat" => { let d = DeepEx::<f64>::parse(s).map_err(e)?; FlatEx::from_deepex(d).map_err(e)?.eval(&vals).map_err(e)?; }
        "roundtrip" => { let d = FlatEx::<f64>::parse(s).map_err(e)?.to_deepex().map_err(e)?; FlatEx::from_deepex(d).map_err(e)?.eval(&vals).map_err(e)?; }
        "partial" => { FlatEx::<f64>::parse(s).map_err(e)?.partial(0).map_err(e)?.eval(&vals).map_err(e)?; }
        // the flat and the deep form of the same text, values recorded bit for bit (judged by TLC)
        "agree" => {
            let a = FlatEx::<f64>::parse(s).map_err(e)?.eval(&vals).map_err(e)?;
            let b = DeepEx::<f64>::parse(s).map_err(e)?.eval(&vals).map_err(e)?;
            AGREE.with(|c| *c.borrow_mut() = Some((a.to_bits(), b.to_bits())));
        }
        "deep_partial" => { DeepEx::<f64>::parse(s).map_err(e)?.partial(0).map_err(e)?.eval(&vals).map_err(e)?; }
        _ => return Err("unknown act".into()),
    }
    Ok(())
}

fn run_val(s: &str, n: usize, act: &str) -> Result<(), String> {
    let vals: Vec<Val<i32, f64>> = (0..n).map(|i| Val::Float(1.0 + (i % 7) as f64 * 0.25)).collect();
    let e = |x: exmex::ExError| x.to_string();
    match act {
        "parse_eval" => { FlatExVal::<i32, f64>::parse(s).map_err(e)?.eval(&vals).map_err(e)?; }
        "roundtrip" => { let d = FlatExVal::<i32, f64>::parse(s).map_err(e)?.to_deepex().map_err(e)?; FlatEx::from_deepex(d).map_err(e)?.eval(&vals).map_err(e)?; }
        "partial" => { FlatExVal::<i32, f64>::parse(s).map_err(e)?.partial(0).map_err(e)?.eval(&vals).map_err(e)?; }
        _ => return Err("unknown act".into()),
    }
    Ok(())
}

pub fn main(args: &[String]) -> i32 {
    let o = Opts::parse(args);
    let n = o.num("n", 10) as usize;
    let op = o.get("op").unwrap_or("-").to_string();
    let act = o.get("act").unwrap_or("parse_eval").to_string();
    let ty = o.get("ty").unwrap_or("f64").to_string();
    let s = text(n, &op);
    let r = crate::util::guarded(|| if ty == "val" { run_val(&s, n, &act) } else { run_f64(&s, n, &act) });
    let outcome = match r {
        Ok(Ok(())) => "ok".to_string(),
        Ok(Err(m)) => if m == "unknown act" { "script".to_string() } else { "err".to_string() },
        Err(_) => "panic".to_string(),
    };
    let mut rec = json!({"n": n, "op": op, "act": act, "ty": ty, "tokens": 2 * n - 1, "outcome": outcome});
    if let Some((a, b)) = AGREE.with(|c| *c.borrow()) {
        let split = |v: u64| (((v >> 32) & 0x7fff_ffff) as u32, (v & 0x7fff_ffff) as u32, (v >> 63) as u32, ((v >> 31) & 1) as u32);
        rec["flat"] = json!(split(a));
        rec["deep"] = json!(split(b));
    }
    println!("{rec}");
    0
}
