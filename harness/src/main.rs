//! Recorder: drives the real exmex library and records what it did.  It contains no oracle: the only
//! comparison it makes is "identical, as a JSON value, to what TLC printed"; everything else is
//! forwarded to the TLC judges.
mod calc;
mod counted;
mod dump;
mod dynops;
mod expr;
mod floatexpr;
mod floatgrid;
mod fuzz;
mod fuzz_calc;
mod lex;
mod stmts;
mod longchain;
mod sym;
mod term;
mod threads;
mod tracker;
mod util;
mod valdiff;
mod valgrid;
mod vars;

fn main() {
    let args: Vec<String> = std::env::args().skip(1).collect();
    let mode = args.first().map(|s| s.as_str()).unwrap_or("");
    // panics of the library under test are data; panics of the generators are bugs of the machinery
    if !mode.starts_with("fuzz") && mode != "tables" {
        util::quiet_panics();
    }
    let rest = &args[args.len().min(1)..];
    let code = match mode {
        "expr" => expr::main(rest),
        "fuzz-expr" => fuzz::main(rest),
        "lex" => lex::main(rest),
        "tracker" => tracker::main(rest),
        "fuzz-sched" => tracker::main_fuzz(rest),
        "consume" => counted::main(rest),
        "vars" => vars::main(rest),
        "valgrid" => valgrid::main(rest),
        "calc" => calc::main(rest),
        "dump" => dump::main(rest),
        "threads" => threads::main(rest),
        "floatgrid" => floatgrid::main(rest),
        "valdiff" => valdiff::main(rest),
        "fuzz-calc" => fuzz_calc::main(rest),
        "fuzz-val" => valgrid::main_fuzz(rest),
        "tables" => fuzz::main_tables(rest),
        "longchain" => longchain::main(rest),
        "stmts" => stmts::main(rest),
        "floatexpr" => floatexpr::main(rest),
        _ => {
            eprintln!("usage: recorder <expr> [options]");
            2
        }
    };
    std::process::exit(code);
}
