//! Statement sessions: a sequence of lines (`x = 2`, `y = x + 1`, `y`) through `line_2_statement` and a `Statements` store
//! over `Sym`; records per line what happened (error / assigned / value).  The library prints debug output on stdout
//! (`Rhs::eval`), so the records go to the file given with --out.  Only records.
use crate::dynops;
use crate::sym::{reset_intern, Sym, SymMatcher, SymOps};
use crate::term::{cps, uncps};
use crate::util::{for_each_record, guarded, Opts};
use exmex::statements::{line_2_statement, Rhs};
use exmex::{Express, Statement, Statements};
use serde_json::{json, Value};
use std::io::Write;

type St = Statements<Sym, SymOps, SymMatcher>;

pub fn main(args: &[String]) -> i32 {
    let o = Opts::parse(args);
    let mut out = std::io::BufWriter::new(std::fs::File::create(o.get("out").expect("--out")).expect("out file"));
    let mut logf: Option<std::fs::File> = o.get("tlc-log").map(|p| std::fs::File::create(p).expect("log file"));
    let (mut n, mut runs) = (0u64, 0u64);
    for_each_record(std::io::stdin().lock(), logf.as_mut().map(|f| f as &mut dyn Write), |rec| {
        if let Some(t) = rec.get("table") {
            dynops::set_table(dynops::table_from_json(t));
            if rec.get("lines").is_none() {
                let _ = writeln!(out, "{}", json!({"table": t}));
                return;
            }
        }
        let Some(lines) = rec.get("lines").and_then(|l| l.as_array()) else { return };
        n += 1;
        reset_intern();
        let mut store = St::default();
        let mut res = vec![];
        for l in lines {
            runs += 1;
            let line: &'static str = Box::leak(uncps(l).into_boxed_str());
            let st = std::mem::take(&mut store);
            let r = guarded(move || -> (St, Value) {
                match line_2_statement::<Sym, SymOps, SymMatcher>(line) {
                    Err(_) => (st, json!({"outcome": "err"})),
                    Ok(Statement { var: Some(v), rhs }) => {
                        let kind = match &rhs { Rhs::Val(_) => "val", Rhs::Expr(_) => "expr" };
                        let vars: Vec<Value> = match &rhs { Rhs::Expr(e) => e.var_names().iter().map(|x| cps(x)).collect(), _ => vec![] };
                        let st = st.insert(v, rhs);
                        (st, json!({"outcome": "assigned", "name": cps(v), "kind": kind, "vars": vars}))
                    }
                    Ok(Statement { var: None, rhs }) => match rhs.eval(&st) {
                        Ok(v) => (st, json!({"outcome": "value", "den": v.to_json()})),
                        Err(_) => (st, json!({"outcome": "evalerr"})),
                    },
                }
            });
            match r {
                Ok((st, v)) => {
                    store = st;
                    res.push(v);
                }
                Err(_) => {
                    res.push(json!({"outcome": "panic"}));
                }
            }
        }
        let mut m = rec.as_object().unwrap().clone();
        m.insert("case".into(), json!(n));
        m.insert("res".into(), Value::Array(res));
        let _ = writeln!(out, "{}", Value::Object(m));
    });
    let _ = out.flush();
    let summary = json!({"cases": n, "runs": runs});
    if let Some(p) = o.get("summary") {
        std::fs::write(p, summary.to_string()).expect("summary");
    } else {
        eprintln!("{summary}");
    }
    0
}
