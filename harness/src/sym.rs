//! `Sym`: a symbolic data type like `Term` that additionally folds literal-with-literal `+ - * /`
//! (and integer powers) in exact rational arithmetic, so that the `is_zero` / `is_one` shortcuts of
//! exmex fire exactly where they would for floats.  Implements what differentiation needs
//! (`From<f32>`, `From<u8>`, `PartialEq`).
use crate::dynops::{table, NSLOTS};
use exmex::{BinOp, MakeOperators, MatchLiteral, Operator};
use serde_json::{json, Value};
use std::cell::RefCell;
use std::fmt;
use std::str::FromStr;

#[derive(Clone, Copy, PartialEq, Eq, Hash, Debug)]
pub struct Rat {
    pub n: i128,
    pub d: i128,
}
fn gcd(a: i128, b: i128) -> i128 {
    if b == 0 { a.abs() } else { gcd(b, a % b) }
}
impl Rat {
    pub fn new(n: i128, d: i128) -> Option<Rat> {
        if d == 0 {
            return None;
        }
        let g = gcd(n, d).max(1);
        let (mut n, mut d) = (n / g, d / g);
        if d < 0 {
            n = -n;
            d = -d;
        }
        Some(Rat { n, d })
    }
    pub fn int(n: i128) -> Rat {
        Rat { n, d: 1 }
    }
    fn add(self, o: Rat) -> Option<Rat> {
        Rat::new(self.n.checked_mul(o.d)?.checked_add(o.n.checked_mul(self.d)?)?, self.d.checked_mul(o.d)?)
    }
    fn sub(self, o: Rat) -> Option<Rat> {
        self.add(Rat { n: o.n.checked_neg()?, d: o.d })
    }
    fn mul(self, o: Rat) -> Option<Rat> {
        Rat::new(self.n.checked_mul(o.n)?, self.d.checked_mul(o.d)?)
    }
    fn div(self, o: Rat) -> Option<Rat> {
        if o.n == 0 { None } else { Rat::new(self.n.checked_mul(o.d)?, self.d.checked_mul(o.n)?) }
    }
}

#[derive(Clone, PartialEq, Eq, Hash, Default)]
pub enum Sym {
    #[default]
    Hole,
    Num(Rat),
    Var(String),
    Const(usize),
    Un(usize, Box<Sym>),
    Bin(usize, Box<Sym>, Box<Sym>),
}

thread_local! {
    static INTERN: RefCell<Vec<Sym>> = const { RefCell::new(Vec::new()) };
}
pub fn reset_intern() {
    INTERN.with(|t| t.borrow_mut().clear());
}

/// `Debug` must be a literal the matcher reads back (the deep printer uses it): non-negative integers
/// and finite decimals print as such, everything else as `@<n>`.
impl fmt::Debug for Sym {
    fn fmt(&self, f: &mut fmt::Formatter<'_>) -> fmt::Result {
        if let Sym::Num(r) = self {
            if r.n >= 0 && r.d == 1 {
                return write!(f, "{}", r.n);
            }
        }
        let k = INTERN.with(|tab| {
            let mut tab = tab.borrow_mut();
            if let Some(p) = tab.iter().position(|x| x == self) {
                p
            } else {
                tab.push(self.clone());
                tab.len() - 1
            }
        });
        write!(f, "@{k}")
    }
}

impl FromStr for Sym {
    type Err = String;
    fn from_str(s: &str) -> Result<Self, Self::Err> {
        if let Some(k) = s.strip_prefix('@') {
            let k: usize = k.parse().map_err(|_| format!("bad literal {s}"))?;
            return INTERN.with(|tab| tab.borrow().get(k).cloned().ok_or_else(|| format!("unknown literal {s}")));
        }
        // digits with at most one dot
        let (ip, fp) = match s.split_once('.') {
            Some((a, b)) => (a, b),
            None => (s, ""),
        };
        let digits = format!("{ip}{fp}");
        if digits.is_empty() || !digits.chars().all(|c| c.is_ascii_digit()) || digits.len() > 30 {
            return Err(format!("bad literal {s}"));
        }
        let n: i128 = digits.parse().map_err(|_| format!("bad literal {s}"))?;
        let d: i128 = 10i128.pow(fp.len() as u32);
        Rat::new(n, d).map(Sym::Num).ok_or_else(|| format!("bad literal {s}"))
    }
}
impl From<u8> for Sym {
    fn from(v: u8) -> Self {
        Sym::Num(Rat::int(v as i128))
    }
}
impl From<f32> for Sym {
    fn from(v: f32) -> Self {
        // f32 values are dyadic rationals; exmex only passes small integers (2.0, 10.0)
        let mut d: i128 = 1;
        let mut x = v as f64;
        while x.fract() != 0.0 && d < (1 << 60) {
            x *= 2.0;
            d *= 2;
        }
        Sym::Num(Rat::new(x as i128, d).unwrap())
    }
}

#[derive(Clone, Debug, Default, PartialEq)]
pub struct SymMatcher;
impl MatchLiteral for SymMatcher {
    fn is_literal(text: &str) -> Option<&str> {
        if let Some(rest) = text.strip_prefix('@') {
            let n = rest.chars().take_while(|c| c.is_ascii_digit()).count();
            return if n > 0 { Some(&text[..n + 1]) } else { None };
        }
        exmex::NumberMatcher::is_literal(text)
    }
}

fn sb<const I: usize>(a: Sym, b: Sym) -> Sym {
    if let (Sym::Num(x), Sym::Num(y)) = (&a, &b) {
        let name = table().get(I).map(|o| o.name).unwrap_or("");
        let r = match name {
            "+" => x.add(*y),
            "-" => x.sub(*y),
            "*" => x.mul(*y),
            "/" => x.div(*y),
            "^" if y.d == 1 && (0..=8).contains(&y.n) => {
                let mut acc = Some(Rat::int(1));
                for _ in 0..y.n {
                    acc = acc.and_then(|v| v.mul(*x));
                }
                if x.n == 0 && y.n == 0 { None } else { acc }
            }
            _ => None,
        };
        if let Some(r) = r {
            return Sym::Num(r);
        }
    }
    Sym::Bin(I, Box::new(a), Box::new(b))
}
fn su<const I: usize>(a: Sym) -> Sym {
    if let Sym::Num(x) = &a {
        match table().get(I).map(|o| o.name).unwrap_or("") {
            "-" => {
                if let Some(n) = x.n.checked_neg() {
                    return Sym::Num(Rat { n, d: x.d });
                }
            }
            "+" => return a,
            _ => {}
        }
    }
    Sym::Un(I, Box::new(a))
}
macro_rules! slots {
    ($f:ident, $($i:literal),*) => { [$($f::<$i>),*] };
}
static SBIN: [fn(Sym, Sym) -> Sym; NSLOTS] = slots!(sb, 0,1,2,3,4,5,6,7,8,9,10,11,12,13,14,15,16,17,18,19,20,21,22,23,24,25,26,27,28,29,30,31,32,33,34,35,36,37,38,39,40,41,42,43,44,45,46,47,48,49,50,51,52,53,54,55,56,57,58,59,60,61,62,63,64,65,66,67,68,69,70,71,72,73,74,75,76,77,78,79,80,81,82,83,84,85,86,87,88,89,90,91,92,93,94,95);
static SUN: [fn(Sym) -> Sym; NSLOTS] = slots!(su, 0,1,2,3,4,5,6,7,8,9,10,11,12,13,14,15,16,17,18,19,20,21,22,23,24,25,26,27,28,29,30,31,32,33,34,35,36,37,38,39,40,41,42,43,44,45,46,47,48,49,50,51,52,53,54,55,56,57,58,59,60,61,62,63,64,65,66,67,68,69,70,71,72,73,74,75,76,77,78,79,80,81,82,83,84,85,86,87,88,89,90,91,92,93,94,95);

#[derive(Clone, Debug, Default, PartialEq)]
pub struct SymOps;
impl MakeOperators<Sym> for SymOps {
    fn make<'a>() -> Vec<Operator<'a, Sym>> {
        table()
            .iter()
            .enumerate()
            .map(|(i, o)| {
                let b = BinOp { apply: SBIN[i], prio: o.prio, is_commutative: o.comm };
                if o.constant {
                    Operator::make_constant(o.name, Sym::Const(i))
                } else if o.bin && o.un {
                    Operator::make_bin_unary(o.name, b, SUN[i])
                } else if o.bin {
                    Operator::make_bin(o.name, b)
                } else {
                    Operator::make_unary(o.name, SUN[i])
                }
            })
            .collect()
    }
}

impl Sym {
    pub fn to_json(&self) -> Value {
        match self {
            Sym::Hole => json!({"k": "hole"}),
            Sym::Num(r) => {
                let fits = |x: i128| x.abs() < (1 << 30);
                if fits(r.n) && fits(r.d) {
                    json!({"k": "num", "n": r.n as i64, "d": r.d as i64})
                } else {
                    json!({"k": "num", "n": 0, "d": 1, "big": true})
                }
            }
            Sym::Var(s) => json!({"k": "var", "v": crate::term::cps(s)}),
            Sym::Const(o) => json!({"k": "const", "c": o + 1}),
            Sym::Un(o, a) => json!({"k": "un", "o": o + 1, "a": a.to_json()}),
            Sym::Bin(o, l, r) => json!({"k": "bin", "o": o + 1, "l": l.to_json(), "r": r.to_json()}),
        }
    }
}

/// meaning of the names of the default float table (an encoding, not an oracle: the TLA+ side decides
/// what "add" means)
pub fn sem_of(name: &str, binary: bool) -> &'static str {
    if binary {
        match name {
            "+" => "add",
            "-" => "sub",
            "*" => "mul",
            "/" => "div",
            "^" => "pow",
            "atan2" => "atan2",
            "min" => "min",
            "max" => "max",
            _ => "other",
        }
    } else {
        match name {
            "+" => "pos",
            "-" => "neg",
            "sin" => "sin", "cos" => "cos", "tan" => "tan", "asin" => "asin", "acos" => "acos", "atan" => "atan",
            "sinh" => "sinh", "cosh" => "cosh", "tanh" => "tanh", "asinh" => "asinh", "acosh" => "acosh", "atanh" => "atanh",
            "exp" => "exp", "ln" => "ln", "log" => "log", "log2" => "log2", "log10" => "log10", "sqrt" => "sqrt",
            "abs" => "abs", "floor" => "floor", "ceil" => "ceil", "round" => "round", "trunc" => "trunc", "fract" => "fract",
            "signum" => "signum", "cbrt" => "cbrt",
            _ => "other",
        }
    }
}
