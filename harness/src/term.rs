//! `Term`: a free term algebra used as exmex data type.  One evaluation returns the whole applied
//! tree, i.e. a decision for all variable values at once.  Purely structural: nothing is simplified.
use exmex::MatchLiteral;
use serde_json::{json, Value};
use std::cell::RefCell;
use std::fmt;
use std::str::FromStr;

#[derive(Clone, PartialEq, Eq, Hash, Default)]
pub enum Term {
    /// `Default`: a moved-out placeholder.  Must never reach an operator.
    #[default]
    Hole,
    /// literal, kept as the text exmex handed to `FromStr`
    Num(String),
    Var(String),
    /// value of the constant operator with this table index
    Const(usize),
    Un(usize, Box<Term>),
    Bin(usize, Box<Term>, Box<Term>),
}

thread_local! {
    static INTERN: RefCell<Vec<Term>> = const { RefCell::new(Vec::new()) };
}

pub fn reset_intern() {
    INTERN.with(|t| t.borrow_mut().clear());
}

/// `Debug` is what the deep printer writes for a number node, so it has to be a literal that the
/// matcher reads back: plain literals print as themselves, folded terms as `@<n>`.
impl fmt::Debug for Term {
    fn fmt(&self, f: &mut fmt::Formatter<'_>) -> fmt::Result {
        match self {
            Term::Num(s) => f.write_str(s),
            t => {
                let k = INTERN.with(|tab| {
                    let mut tab = tab.borrow_mut();
                    if let Some(p) = tab.iter().position(|x| x == t) {
                        p
                    } else {
                        tab.push(t.clone());
                        tab.len() - 1
                    }
                });
                write!(f, "@{k}")
            }
        }
    }
}

// neutral elements for the shortcuts of the deep form (`e + g*0` adds g to the variable list without an occurrence)
impl From<u8> for Term {
    fn from(n: u8) -> Self {
        Term::Num(n.to_string())
    }
}

impl FromStr for Term {
    type Err = String;
    fn from_str(s: &str) -> Result<Self, Self::Err> {
        if let Some(k) = s.strip_prefix('@') {
            let k: usize = k.parse().map_err(|_| format!("bad term literal {s}"))?;
            INTERN.with(|tab| tab.borrow().get(k).cloned().ok_or_else(|| format!("unknown term literal {s}")))
        } else {
            Ok(Term::Num(s.to_string()))
        }
    }
}

/// number literals exactly as the default matcher, plus `@<digits>` for folded terms
#[derive(Clone, Debug)]
pub struct TermMatcher;
impl MatchLiteral for TermMatcher {
    fn is_literal(text: &str) -> Option<&str> {
        if let Some(rest) = text.strip_prefix('@') {
            let n = rest.chars().take_while(|c| c.is_ascii_digit()).count();
            if n > 0 {
                return Some(&text[..n + 1]);
            }
            return None;
        }
        exmex::NumberMatcher::is_literal(text)
    }
}

pub fn cps(s: &str) -> Value {
    Value::Array(s.chars().map(|c| json!(c as u32)).collect())
}

pub fn uncps(v: &Value) -> String {
    v.as_array()
        .map(|a| a.iter().filter_map(|c| c.as_u64().and_then(|c| char::from_u32(c as u32))).collect())
        .unwrap_or_default()
}

impl Term {
    /// JSON in the format of the TLA+ trees (operator ids 1-based, names/literals as code points)
    pub fn to_json(&self) -> Value {
        // iterative would be nicer for very deep terms; recursion depth equals term depth
        match self {
            Term::Hole => json!({"k": "hole"}),
            Term::Num(s) => json!({"k": "num", "v": cps(s)}),
            Term::Var(s) => json!({"k": "var", "v": cps(s)}),
            Term::Const(o) => json!({"k": "const", "c": o + 1}),
            Term::Un(o, a) => json!({"k": "un", "o": o + 1, "a": a.to_json()}),
            Term::Bin(o, l, r) => json!({"k": "bin", "o": o + 1, "l": l.to_json(), "r": r.to_json()}),
        }
    }
    pub fn has_hole(&self) -> bool {
        match self {
            Term::Hole => true,
            Term::Un(_, a) => a.has_hole(),
            Term::Bin(_, l, r) => l.has_hole() || r.has_hole(),
            _ => false,
        }
    }
    pub fn size(&self) -> usize {
        match self {
            Term::Un(_, a) => 1 + a.size(),
            Term::Bin(_, l, r) => 1 + l.size() + r.size(),
            _ => 1,
        }
    }
}
