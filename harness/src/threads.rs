//! Concurrent parse / eval (C20): first-use races on the lazily built regexes (this must be the first
//! thing the process does with exmex), shared expressions evaluated from many threads, per-thread
//! event sequences.  Only records.
use crate::dynops::{self, DynOps};
use crate::term::{cps, uncps, Term, TermMatcher};
use crate::util::Opts;
use exmex::prelude::*;
use exmex::{DeepEx, Express};
use serde_json::{json, Value};
use std::io::{Read, Write};
use std::sync::{Arc, Barrier};

type Flat = FlatEx<Term, DynOps, TermMatcher>;

fn bits(v: f64) -> (u32, u32) {
    let b = v.to_bits();
    ((b >> 32) as u32 & 0x7fff_ffff, (b & 0x7fff_ffff) as u32)
}

pub fn main(args: &[String]) -> i32 {
    let o = Opts::parse(args);
    let nthreads = o.num("threads", 16) as usize;
    let rounds = o.num("rounds", 20) as usize;
    let parity = o.num("second-parity", 1) as usize % 2;
    // 0: all threads race for the first use; 1 / 2: one thread of the first / second table makes the very first parse of the
    // process alone, then the race starts (an order-dependent global shows deterministically instead of by luck)
    let first_table = o.num("first-table", 0) as usize;
    // configuration: {"table": ..., "texts": [cps...], "ftexts": ["x*2+sin(y)", ...]}  (no exmex call before the threads start)
    let mut input = String::new();
    std::io::stdin().read_to_string(&mut input).unwrap();
    let cfg: Value = serde_json::from_str(input.lines().next().unwrap()).unwrap();
    let table = dynops::table_from_json(&cfg["table"]);
    let texts: Vec<String> = cfg["texts"].as_array().unwrap().iter().map(uncps).collect();
    // a second operator table of the same size over the same data type, used by the odd threads
    let table2 = dynops::table_from_json(&cfg["table2"]);
    let texts2: Vec<String> = cfg["texts2"].as_array().unwrap().iter().map(uncps).collect();
    let ftexts: Vec<String> = cfg["ftexts"].as_array().unwrap().iter().map(|t| t.as_str().unwrap().to_string()).collect();
    let barrier = Arc::new(Barrier::new(nthreads));
    // phase 1: all threads parse at once (first use of the regex statics)
    let mut handles = vec![];
    for tid in 0..nthreads {
        // the thread that arrives last at the barrier runs first: alternate which table it has between runs
        let second = tid % 2 == parity;
        let (table, texts, ftexts, barrier) = (if second { table2.clone() } else { table.clone() }, if second { texts2.clone() } else { texts.clone() }, ftexts.clone(), barrier.clone());
        let table_json = if second { cfg["table2"].clone() } else { cfg["table"].clone() };
        let leader = first_table != 0 && second == (first_table == 2) && tid < 2;
        handles.push(std::thread::spawn(move || {
            dynops::set_table(table);
            let mut ev = vec![];
            if leader {
                let text: &'static str = Box::leak(texts[0].clone().into_boxed_str());
                let _ = crate::util::guarded(|| crate::expr::run_entry("flat", text));
            }
            barrier.wait();
            let mut seq = 0;
            for r in 0..2 {
                for (k, t) in texts.iter().enumerate() {
                    let k = (k + tid + r) % texts.len();
                    let _ = t;
                    let t = &texts[k];
                    seq += 1;
                    let res = crate::util::guarded(|| {
                        let text: &'static str = Box::leak(t.clone().into_boxed_str());
                        crate::expr::run_entry(if (tid + k) % 2 == 0 { "flat" } else { "deep" }, text)
                    });
                    let run = match res {
                        Ok(obs) => obs.to_json(),
                        Err(_) => json!({"outcome": "panic"}),
                    };
                    let mut run = run;
                    run["entry"] = json!(if (tid + k) % 2 == 0 { "flat" } else { "deep" });
                    let mut e = json!({"tid": tid, "seq": seq, "act": "parse", "text": cps(t), "expect": "any", "runs": [run]});
                    if second {
                        e["table"] = table_json.clone();
                    }
                    ev.push(e);
                }
                for ft in &ftexts {
                    seq += 1;
                    let v = crate::util::guarded(|| FlatEx::<f64>::parse(ft).and_then(|e| e.eval(&vec![0.75; e.var_names().len()])));
                    let (hi, lo) = v.ok().and_then(|v| v.ok()).map(bits).unwrap_or((0, 1));
                    ev.push(json!({"tid": tid, "seq": seq, "act": "fparse", "ftext": ft, "hi": hi, "lo": lo}));
                }
            }
            ev
        }));
    }
    let mut events: Vec<Value> = vec![];
    for h in handles {
        match h.join() {
            Ok(ev) => events.extend(ev),
            Err(_) => events.push(json!({"tid": 999, "seq": 0, "act": "thread_panic"})),
        }
    }
    // phase 2: shared expressions evaluated concurrently
    dynops::set_table(table.clone());
    let shared_text: &'static str = Box::leak(texts[0].clone().into_boxed_str());
    let shared = Arc::new(Flat::parse(shared_text).expect("shared expression must parse"));
    let fshared = Arc::new(FlatEx::<f64>::parse(&ftexts[0]).expect("shared float expression must parse"));
    let dshared: Arc<DeepEx<'static, f64>> = Arc::new(DeepEx::parse(Box::leak(ftexts[0].clone().into_boxed_str())).expect("deep"));
    // shared expressions with more than 64 and more than 128 operands (slice trackers of different lengths), evaluated by
    // half of the threads in the order short -> long and by the other half long -> short (per-thread hidden state shows)
    let bigs: Vec<(&'static str, Arc<Flat>)> = cfg["bigtexts"].as_array().map(|a| a.iter().map(|t| {
        let txt: &'static str = Box::leak(uncps(t).into_boxed_str());
        (txt, Arc::new(Flat::parse(txt).expect("big shared expression must parse")))
    }).collect()).unwrap_or_default();
    // a deeply nested shared deep expression: many nested evaluations are in flight at once in every thread
    let deep_nested: Option<(&'static str, Arc<crate::expr::Deep<'static>>)> = cfg.get("deeptext").map(|t| {
        let txt: &'static str = Box::leak(uncps(t).into_boxed_str());
        (txt, Arc::new(crate::expr::Deep::parse(txt).expect("nested shared expression must parse")))
    });
    let dump_before = (shared.verif_dump(), fshared.verif_dump(), dshared.verif_dump());
    let nv = fshared.var_names().len();
    let fvals = move |tid: usize, r: usize| -> Vec<f64> { (0..nv).map(|j| 0.25 + tid as f64 * 0.5 + r as f64 * 0.125 + j as f64).collect() };
    let barrier = Arc::new(Barrier::new(nthreads));
    let mut handles = vec![];
    for tid in 0..nthreads {
        let (table, shared, fshared, dshared, barrier, bigs) = (table.clone(), shared.clone(), fshared.clone(), dshared.clone(), barrier.clone(), bigs.clone());
        let deep_nested = deep_nested.clone();
        handles.push(std::thread::spawn(move || {
            dynops::set_table(table);
            let mut ev = vec![];
            barrier.wait();
            let order: Vec<usize> = if tid % 2 == 0 { (0..bigs.len()).collect() } else { (0..bigs.len()).rev().collect() };
            for (q, b) in order.into_iter().enumerate() {
                let (txt, ex) = &bigs[b];
                let vals: Vec<Term> = ex.var_names().iter().map(|n| Term::Var(format!("{n}#t{tid}"))).collect();
                let den = crate::util::guarded(|| ex.eval(&vals));
                let (outcome, den) = match den {
                    Ok(Ok(d)) => ("ok", d.to_json()),
                    Ok(Err(_)) => ("err", json!({"k": "none"})),
                    Err(_) => ("panic", json!({"k": "none"})),
                };
                ev.push(json!({"tid": tid, "seq": 900 + q, "act": "eval", "text": cps(txt), "suffix": cps(&format!("#t{tid}")), "outcome": outcome, "den": den}));
            }
            if let Some((txt, ex)) = &deep_nested {
                let vals: Vec<Term> = ex.var_names().iter().map(|n| Term::Var(format!("{n}#t{tid}"))).collect();
                let mut first: Option<Value> = None;
                barrier.wait(); // all threads enter the nested evaluations together
                for r in 0..400 {
                    let den = crate::util::guarded(|| ex.eval(&vals));
                    let (outcome, den) = match den {
                        Ok(Ok(d)) => ("ok", d.to_json()),
                        Ok(Err(_)) => ("err", json!({"k": "none"})),
                        Err(_) => ("panic", json!({"k": "none"})),
                    };
                    // every evaluation is made; one that is identical (as JSON) to the thread's first one is not recorded again
                    let this = json!({"outcome": outcome, "den": den});
                    if r < 1 || first.as_ref() != Some(&this) {
                        ev.push(json!({"tid": tid, "seq": 950 + r, "act": "eval", "text": cps(txt), "suffix": cps(&format!("#t{tid}")), "outcome": outcome, "den": this["den"]}));
                    }
                    if first.is_none() {
                        first = Some(this);
                    }
                }
            }
            for r in 0..rounds {
                let vals: Vec<Term> = shared.var_names().iter().map(|n| Term::Var(format!("{n}#t{tid}"))).collect();
                let den = crate::util::guarded(|| shared.eval(&vals));
                let (outcome, den) = match den {
                    Ok(Ok(d)) => ("ok", d.to_json()),
                    Ok(Err(_)) => ("err", json!({"k": "none"})),
                    Err(_) => ("panic", json!({"k": "none"})),
                };
                ev.push(json!({"tid": tid, "seq": 1000 + 3 * r, "act": "eval", "text": cps(shared_text), "suffix": cps(&format!("#t{tid}")), "outcome": outcome, "den": den}));
                let fv = fvals(tid, r);
                let (hi, lo) = crate::util::guarded(|| fshared.eval(&fv)).ok().and_then(|v| v.ok()).map(bits).unwrap_or((0, 1));
                ev.push(json!({"tid": tid, "seq": 1001 + 3 * r, "act": "feval", "r": r, "form": "flat", "hi": hi, "lo": lo}));
                let (hi, lo) = crate::util::guarded(|| dshared.eval(&fv)).ok().and_then(|v| v.ok()).map(bits).unwrap_or((0, 1));
                ev.push(json!({"tid": tid, "seq": 1002 + 3 * r, "act": "feval", "r": r, "form": "deep", "hi": hi, "lo": lo}));
            }
            ev
        }));
    }
    for h in handles {
        match h.join() {
            Ok(ev) => events.extend(ev),
            Err(_) => events.push(json!({"tid": 999, "seq": 0, "act": "thread_panic"})),
        }
    }
    let dump_after = (shared.verif_dump(), fshared.verif_dump(), dshared.verif_dump());
    // phase 3: the sequential run the concurrent results are compared with (by the judge)
    let mut out = std::io::BufWriter::new(std::io::stdout().lock());
    let _ = writeln!(out, "{}", json!({"table": cfg["table"]}));
    let mut n = 0u64;
    for mut e in events {
        n += 1;
        e["case"] = json!(n);
        match e["act"].as_str().unwrap_or("") {
            "fparse" => {
                let ft = e["ftext"].as_str().unwrap().to_string();
                let (hi, lo) = FlatEx::<f64>::parse(&ft).and_then(|x| x.eval(&vec![0.75; x.var_names().len()])).map(bits).unwrap_or((0, 1));
                e["seq_hi"] = json!(hi);
                e["seq_lo"] = json!(lo);
                e.as_object_mut().unwrap().remove("ftext");
            }
            "feval" => {
                let tid = e["tid"].as_u64().unwrap() as usize;
                let r = e["r"].as_u64().unwrap() as usize;
                let fv = fvals(tid, r);
                let v = if e["form"] == "flat" { fshared.eval(&fv) } else { dshared.eval(&fv) };
                let (hi, lo) = v.map(bits).unwrap_or((0, 1));
                e["seq_hi"] = json!(hi);
                e["seq_lo"] = json!(lo);
            }
            _ => {}
        }
        let _ = writeln!(out, "{e}");
    }
    n += 1;
    let same = |a: &str, b: &str| if a == b { "same" } else { "changed" };
    let _ = writeln!(out, "{}", json!({"case": n, "tid": 0, "seq": 0, "act": "dump", "term": same(&dump_before.0, &dump_after.0),
        "flat": same(&dump_before.1, &dump_after.1), "deep": same(&dump_before.2, &dump_after.2)}));
    let _ = out.flush();
    let summary = json!({"cases": n, "runs": n, "threads": nthreads});
    if let Some(p) = o.get("summary") {
        std::fs::write(p, summary.to_string()).expect("summary");
    } else {
        eprintln!("{summary}");
    }
    0
}
