//! Drives the real `NumberTracker` implementations (re-exported by the cfg(exmex_verif) hook).
use crate::util::{for_each_record, guarded, Opts};
use exmex::verif::NumberTracker;
use serde_json::{json, Value};
use std::io::Write;

fn run<N: NumberTracker + ?Sized>(tr: &mut N, base: usize, order: &[usize]) -> Vec<Value> {
    order
        .iter()
        .map(|&o| {
            let idx = base + o;
            let prev = tr.get_previous(idx);
            let next = tr.consume_next(idx);
            json!({"idx": o, "prev": prev, "next": next})
        })
        .collect()
}

pub fn main(args: &[String]) -> i32 {
    let o = Opts::parse(args);
    let forward_all = o.has("forward-all");
    let mut logf: Option<std::fs::File> = o.get("tlc-log").map(|p| std::fs::File::create(p).expect("log file"));
    let stdin = std::io::stdin();
    let stdout = std::io::stdout();
    let mut out = std::io::BufWriter::new(stdout.lock());
    let (mut n_cases, mut n_runs, mut ident, mut fwd) = (0u64, 0u64, 0u64, 0u64);
    for_each_record(stdin.lock(), logf.as_mut().map(|f| f as &mut dyn Write), |rec| {
        let Some(order) = rec.get("order").and_then(|x| x.as_array()) else { return };
        let order: Vec<usize> = order.iter().map(|x| x.as_u64().unwrap() as usize).collect();
        let n = rec["n"].as_u64().unwrap() as usize;
        let base = rec["base"].as_u64().unwrap() as usize;
        n_cases += 1;
        let mut kinds: Vec<(&str, usize)> = vec![];
        if base + n <= usize::BITS as usize {
            kinds.push(("word", 1));
        }
        // the callers allocate 1 + len / BITS words
        kinds.push(("slice", 1 + (base + n) / usize::BITS as usize));
        kinds.push(("slice+1", 2 + (base + n) / usize::BITS as usize));
        for (kind, nw) in kinds {
            n_runs += 1;
            let r = guarded(|| {
                if kind == "word" {
                    let mut t: usize = 0;
                    run(&mut t, base, &order)
                } else {
                    let mut t = vec![0usize; nw];
                    run(&mut t[..], base, &order)
                }
            });
            let (outcome, steps) = match r {
                Ok(s) => ("ok", Value::Array(s)),
                Err(_) => ("panic", json!([])),
            };
            let same = outcome == "ok" && rec.get("steps") == Some(&steps);
            if same {
                ident += 1;
            }
            if !same || forward_all {
                fwd += 1;
                let _ = writeln!(out, "{}", json!({"case": fwd, "kind": kind, "n": n, "base": base, "order": order, "outcome": outcome, "steps": steps}));
            }
        }
    });
    let _ = out.flush();
    let summary = json!({"cases": n_cases, "runs": n_runs, "identical": ident, "forwarded": fwd});
    if let Some(p) = o.get("summary") {
        std::fs::write(p, summary.to_string()).expect("summary");
    } else {
        eprintln!("{summary}");
    }
    0
}


/// seeded long schedules (direction B): random permutations and block-structured orders around the word boundaries
pub fn main_fuzz(args: &[String]) -> i32 {
    use rand::rngs::StdRng;
    use rand::seq::{IndexedRandom, SliceRandom};
    use rand::{Rng, SeedableRng};
    let o = Opts::parse(args);
    let n_cases = o.num("n", 200);
    let mut rng = StdRng::seed_from_u64(crate::util::seed().wrapping_mul(0x9E3779B97F4A7C15).wrapping_add(4242 + o.num("stream", 0)));
    let mut out = std::io::BufWriter::new(std::io::stdout().lock());
    for _ in 0..n_cases {
        let n = *[9usize, 33, 64, 65, 66, 127, 128, 129, 130, 191, 192, 193, 200].choose(&mut rng).unwrap();
        let nops = n - 1;
        let mut order: Vec<usize> = (0..nops).collect();
        match rng.random_range(0..5) {
            0 => order.shuffle(&mut rng),
            1 => {
                // a few operators next to the word boundaries first, the rest left to right
                let mut first: Vec<usize> = (0..nops).filter(|i| [62usize, 63, 0, 1].contains(&(i % 64)) && rng.random_bool(0.6)).collect();
                first.shuffle(&mut rng);
                let rest: Vec<usize> = (0..nops).filter(|i| !first.contains(i)).collect();
                order = first.into_iter().chain(rest).collect();
            }
            2 => {
                // shuffled blocks of 8, left to right inside a block
                let mut blocks: Vec<Vec<usize>> = order.chunks(8).map(|c| c.to_vec()).collect();
                blocks.shuffle(&mut rng);
                order = blocks.into_iter().flatten().collect();
            }
            3 => {
                // right to left with random local swaps
                order.reverse();
                for _ in 0..nops / 3 {
                    let i = rng.random_range(0..nops.max(2) - 1);
                    order.swap(i, i + 1);
                }
            }
            _ => {
                // even positions first (random), then odd positions (random)
                let mut ev: Vec<usize> = (0..nops).filter(|i| i % 2 == 0).collect();
                let mut od: Vec<usize> = (0..nops).filter(|i| i % 2 == 1).collect();
                ev.shuffle(&mut rng);
                od.shuffle(&mut rng);
                order = ev.into_iter().chain(od).collect();
            }
        }
        let _ = writeln!(out, "{}", json!({"n": n, "base": 0, "order": order}));
    }
    0
}
