//! Drives the real `NumberTracker` implementations (re-exported by the cfg(exmex_verif) hook).
use crate::util::{for_each_record, guarded, Opts};
use exmex::verif::NumberTracker;
use serde_json::{json, Value};
use std::io::Write;

fn run<N: NumberTracker + ?Sized>(tr: &mut N, base: usize, order: &[usize]) -> Vec<Value> {
    order
        .iter()
        .map(|&o| {
            let idx = base + o;
            let prev = tr.get_previous(idx);
            let next = tr.consume_next(idx);
            json!({"idx": o, "prev": prev, "next": next})
        })
        .collect()
}

pub fn main(args: &[String]) -> i32 {
    let o = Opts::parse(args);
    let forward_all = o.has("forward-all");
    let mut logf: Option<std::fs::File> = o.get("tlc-log").map(|p| std::fs::File::create(p).expect("log file"));
    let stdin = std::io::stdin();
    let stdout = std::io::stdout();
    let mut out = std::io::BufWriter::new(stdout.lock());
    let (mut n_cases, mut n_runs, mut ident, mut fwd) = (0u64, 0u64, 0u64, 0u64);
    for_each_record(stdin.lock(), logf.as_mut().map(|f| f as &mut dyn Write), |rec| {
        let Some(order) = rec.get("order").and_then(|x| x.as_array()) else { return };
        let order: Vec<usize> = order.iter().map(|x| x.as_u64().unwrap() as usize).collect();
        let n = rec["n"].as_u64().unwrap() as usize;
        let base = rec["base"].as_u64().unwrap() as usize;
        n_cases += 1;
        let mut kinds: Vec<(&str, usize)> = vec![];
        if base + n <= usize::BITS as usize {
            kinds.push(("word", 1));
        }
        // the callers allocate 1 + len / BITS words
        kinds.push(("slice", 1 + (base + n) / usize::BITS as usize));
        kinds.push(("slice+1", 2 + (base + n) / usize::BITS as usize));
        for (kind, nw) in kinds {
            n_runs += 1;
            let r = guarded(|| {
                if kind == "word" {
                    let mut t: usize = 0;
                    run(&mut t, base, &order)
                } else {
                    let mut t = vec![0usize; nw];
                    run(&mut t[..], base, &order)
                }
            });
            let (outcome, steps) = match r {
                Ok(s) => ("ok", Value::Array(s)),
                Err(_) => ("panic", json!([])),
            };
            let same = outcome == "ok" && rec.get("steps") == Some(&steps);
            if same {
                ident += 1;
            }
            if !same || forward_all {
                fwd += 1;
                let _ = writeln!(out, "{}", json!({"case": fwd, "kind": kind, "n": n, "base": base, "order": order, "outcome": outcome, "steps": steps}));
            }
        }
    });
    let _ = out.flush();
    let summary = json!({"cases": n_cases, "runs": n_runs, "identical": ident, "forwarded": fwd});
    if let Some(p) = o.get("summary") {
        std::fs::write(p, summary.to_string()).expect("summary");
    } else {
        eprintln!("{summary}");
    }
    0
}
