use serde_json::Value;
use std::io::BufRead;
use std::panic;

pub fn quiet_panics() {
    panic::set_hook(Box::new(|_| {}));
}

/// Runs `f`, turning a panic of the code under test into data.
pub fn guarded<R>(f: impl FnOnce() -> R) -> Result<R, String> {
    panic::catch_unwind(panic::AssertUnwindSafe(f)).map_err(|e| {
        if let Some(s) = e.downcast_ref::<&str>() {
            s.to_string()
        } else if let Some(s) = e.downcast_ref::<String>() {
            s.clone()
        } else {
            "panic".to_string()
        }
    })
}

pub struct Opts {
    pub flags: Vec<(String, String)>,
}
impl Opts {
    pub fn parse(args: &[String]) -> Opts {
        let mut flags = Vec::new();
        let mut i = 0;
        while i < args.len() {
            let a = &args[i];
            if let Some(k) = a.strip_prefix("--") {
                if let Some((k, v)) = k.split_once('=') {
                    flags.push((k.to_string(), v.to_string()));
                } else if i + 1 < args.len() && !args[i + 1].starts_with("--") {
                    flags.push((k.to_string(), args[i + 1].clone()));
                    i += 1;
                } else {
                    flags.push((k.to_string(), "true".to_string()));
                }
            }
            i += 1;
        }
        Opts { flags }
    }
    pub fn get(&self, k: &str) -> Option<&str> {
        self.flags.iter().find(|(a, _)| a == k).map(|(_, v)| v.as_str())
    }
    pub fn has(&self, k: &str) -> bool {
        self.get(k).is_some()
    }
    pub fn num(&self, k: &str, d: u64) -> u64 {
        self.get(k).and_then(|v| v.parse().ok()).unwrap_or(d)
    }
}

/// Reads records from a stream that is either ndjson or raw TLC output (PrintT prints a JSON document
/// as a quoted TLA+ string, which is itself a JSON string literal).  Other lines go to `log`.
pub fn for_each_record(
    input: impl BufRead,
    mut log: Option<&mut dyn std::io::Write>,
    mut f: impl FnMut(Value),
) {
    for line in input.lines() {
        let line = match line {
            Ok(l) => l,
            Err(_) => continue,
        };
        let t = line.trim_end();
        if t.starts_with('{') {
            if let Ok(v) = serde_json::from_str::<Value>(t) {
                f(v);
                continue;
            }
        } else if t.starts_with('"') {
            if let Ok(Value::String(inner)) = serde_json::from_str::<Value>(t) {
                if let Ok(v) = serde_json::from_str::<Value>(&inner) {
                    f(v);
                    continue;
                }
            }
        }
        if let Some(l) = log.as_mut() {
            let _ = writeln!(l, "{t}");
        }
    }
}

pub fn seed() -> u64 {
    std::env::var("VERIF_SEED").ok().and_then(|s| s.parse().ok()).unwrap_or(1)
}
