//! Derivatives of value-typed (piecewise) expressions (C18): the data type `Val` cannot be replaced by a
//! symbolic one, so the structure of the derivative is read through the `verif_dump` hook.
use crate::term::{cps, uncps};
use crate::util::{for_each_record, guarded, Opts};
use exmex::prelude::*;
use exmex::{parse_val, ExResult};
use serde_json::{json, Value};
use std::io::Write;

/// `Int(2)`, `Float(0.5)`, `Bool(true)`, `None`, `Error(..)` -> literal descriptor (exact rational for dyadic floats)
fn decode_literal(s: &str) -> Value {
    if let Some(x) = s.strip_prefix("Int(").and_then(|r| r.strip_suffix(')')) {
        if let Ok(n) = x.parse::<i64>() {
            if n.abs() < (1 << 30) {
                return json!({"k": "num", "n": n, "d": 1, "lk": "int"});
            }
        }
        return json!({"k": "num", "n": 0, "d": 1, "big": true, "lk": "int"});
    }
    if let Some(x) = s.strip_prefix("Float(").and_then(|r| r.strip_suffix(')')) {
        if let Ok(v) = x.parse::<f64>() {
            for (c, name) in [(std::f64::consts::LN_2, "ln2"), (std::f64::consts::LN_10, "ln10"), (std::f64::consts::FRAC_PI_2, "hpi")] {
                if (v - c).abs() < 1e-12 {
                    return json!({"k": "sym", "s": name});
                }
            }
            if v.is_finite() {
                let mut d: i64 = 1;
                let mut y = v;
                while y.fract() != 0.0 && d < (1 << 28) {
                    y *= 2.0;
                    d *= 2;
                }
                if y.fract() == 0.0 && y.abs() < (1u64 << 30) as f64 {
                    return json!({"k": "num", "n": y as i64, "d": d, "lk": "float"});
                }
            }
            return json!({"k": "num", "n": 0, "d": 1, "big": true, "lk": "float"});
        }
    }
    if let Some(x) = s.strip_prefix("Bool(").and_then(|r| r.strip_suffix(')')) {
        return json!({"k": "bool", "b": x == "true"});
    }
    if s == "None" {
        return json!({"k": "none"});
    }
    json!({"k": "err"})
}

type DeepVal<'a> = exmex::DeepEx<'a, exmex::Val<i32, f64>, exmex::ValOpsFactory<i32, f64>, exmex::ValMatcher>;

/// route "flat": parse_val(text).partial(k);  route "deep": DeepEx::parse(text).partial(k) converted to the flat form
/// (the rules see whole nesting levels of the deep form instead of one operator per level)
fn run(text: &str, k: usize, route: &str, point: &[(String, i64, i64)]) -> Value {
    let r = guarded(|| -> ExResult<Value> {
        let e = parse_val::<i32, f64>(text)?;
        let vars: Vec<Value> = e.var_names().iter().map(|v| cps(v)).collect();
        let d = if route == "deep" {
            let text: &'static str = Box::leak(text.to_string().into_boxed_str());
            FlatEx::from_deepex(DeepVal::parse(text)?.partial(k)?)?
        } else {
            e.clone().partial(k)?
        };
        let mut dump: Value = serde_json::from_str(&d.verif_dump()).map_err(|e| exmex::ExError::new(&format!("dump: {e}")))?;
        // literals: Debug text -> descriptor; indices -> 1-based
        for n in dump["nodes"].as_array_mut().unwrap() {
            if n["k"] == "num" {
                let lit = decode_literal(n["v"].as_str().unwrap_or(""));
                n["v"] = lit;
            } else {
                n["i"] = json!(n["i"].as_u64().unwrap() + 1);
            }
            n["un"] = Value::Array(n["un"].as_array().unwrap().iter().map(|x| json!(x.as_u64().unwrap() + 1)).collect());
        }
        for o in dump["ops"].as_array_mut().unwrap() {
            o["idx"] = json!(o["idx"].as_u64().unwrap() + 1);
            o["un"] = Value::Array(o["un"].as_array().unwrap().iter().map(|x| json!(x.as_u64().unwrap() + 1)).collect());
        }
        dump["prio_indices"] = Value::Array(dump["prio_indices"].as_array().unwrap().iter().map(|x| json!(x.as_u64().unwrap() + 1)).collect());
        let dvars: Vec<Value> = d.var_names().iter().map(|v| cps(v)).collect();
        // kind of the value of the original and of the derivative at the point, with the coordinates passed as floats and with
        // the integer-valued ones passed as integers ("integers and floats mixed")
        let kind = |x: Result<exmex::ExResult<exmex::Val<i32, f64>>, String>| -> &'static str {
            match x {
                Err(_) => "panic",
                Ok(Err(_)) => "evalerr",
                Ok(Ok(exmex::Val::Int(_))) => "int",
                Ok(Ok(exmex::Val::Float(_))) => "float",
                Ok(Ok(exmex::Val::Bool(_))) => "bool",
                Ok(Ok(exmex::Val::Array(_))) => "array",
                Ok(Ok(exmex::Val::None)) => "none",
                Ok(Ok(exmex::Val::Error(_))) => "err",
            }
        };
        let coords = |names: &[String], ints: bool| -> Vec<exmex::Val<i32, f64>> {
            names.iter().map(|n| {
                let c = point.iter().find(|p| &p.0 == n).map(|p| (p.1, p.2)).unwrap_or((1, 1));
                if ints && c.1 == 1 { exmex::Val::Int(c.0 as i32) } else { exmex::Val::Float(c.0 as f64 / c.1 as f64) }
            }).collect()
        };
        let at = json!({"orig_float": kind(guarded(|| e.eval(&coords(e.var_names(), false)))), "orig_int": kind(guarded(|| e.eval(&coords(e.var_names(), true)))),
                        "der_float": kind(guarded(|| d.eval(&coords(d.var_names(), false)))), "der_int": kind(guarded(|| d.eval(&coords(d.var_names(), true))))});
        Ok(json!({"outcome": "ok", "vars": vars, "dvars": dvars, "nodes": dump["nodes"], "ops": dump["ops"], "prio": dump["prio_indices"], "at": at}))
    });
    match r {
        Err(_) => json!({"outcome": "panic"}),
        Ok(Err(e)) => json!({"outcome": "err", "msg": e.msg().chars().filter(|c| c.is_ascii() && *c != '"' && *c != '\\').take(100).collect::<String>()}),
        Ok(Ok(v)) => v,
    }
}

pub fn main(args: &[String]) -> i32 {
    let o = Opts::parse(args);
    let stdin = std::io::stdin();
    let stdout = std::io::stdout();
    let mut out = std::io::BufWriter::new(stdout.lock());
    let (mut n, mut runs) = (0u64, 0u64);
    for_each_record(stdin.lock(), None, |rec| {
        if rec.get("text").is_none() {
            if let Some(t) = rec.get("table") {
                let _ = writeln!(out, "{}", json!({"table": t}));
            }
            return;
        }
        n += 1;
        let text = uncps(&rec["text"]);
        let nk = rec["nvars"].as_u64().unwrap_or(1) as usize;
        let point: Vec<(String, i64, i64)> = rec["point"].as_array().map(|a| a.iter().map(|p| (uncps(&p[0]), p[1].as_i64().unwrap_or(0), p[2].as_i64().unwrap_or(1))).collect()).unwrap_or_default();
        let mut results = vec![];
        for route in ["flat", "deep"] {
            for k in 0..nk {
                runs += 1;
                let mut r = run(&text, k, route, &point);
                r["k"] = json!(k + 1);
                r["route"] = json!(route);
                results.push(r);
            }
        }
        let mut m = rec.as_object().unwrap().clone();
        m.insert("case".into(), json!(n));
        m.insert("res".into(), Value::Array(results));
        let _ = writeln!(out, "{}", Value::Object(m));
    });
    let _ = out.flush();
    let summary = json!({"cases": n, "runs": runs});
    if let Some(p) = o.get("summary") {
        std::fs::write(p, summary.to_string()).expect("summary");
    } else {
        eprintln!("{summary}");
    }
    0
}
