//! Applies the operators of the real value table to catalogue operands (C16, C17): directly through the
//! function pointers of `ValOpsFactory::make()`, through variables of a parsed expression and through
//! literals that are folded at parse time.  Only records; the required results come from ValSem.tla.
use crate::util::{for_each_record, guarded, Opts};
use exmex::{parse_val, DataType, Express, MakeOperators, Val, ValOpsFactory};
use num::{Float, PrimInt, Signed};
use serde_json::{json, Value};
use std::fmt::Debug;
use std::io::Write;
use std::str::FromStr;

fn enc_float<F: Float>(x: F) -> Value {
    let v = x.to_f64().unwrap_or(f64::NAN);
    let (c, s) = if v.is_nan() {
        ("nan", 0)
    } else if v == f64::INFINITY {
        ("pinf", 1)
    } else if v == f64::NEG_INFINITY {
        ("ninf", -1)
    } else if v == 0.0 {
        ("zero", if v.is_sign_negative() { -1 } else { 0 })
    } else {
        ("fin", if v < 0.0 { -1 } else { 1 })
    };
    let exact = v.is_finite() && v.abs() <= 1048576.0 && (v * 4.0).fract() == 0.0;
    json!({"k": "float", "c": c, "s": s, "x": exact, "q": if exact { (v * 4.0) as i64 } else { 0 }})
}

fn enc<I, F>(v: &Val<I, F>) -> Value
where
    I: DataType + PrimInt + Signed,
    F: DataType + Float,
{
    match v {
        Val::Int(n) => json!({"k": "int", "v": n.to_i64().unwrap_or(0)}),
        Val::Float(x) => enc_float(*x),
        Val::Bool(b) => json!({"k": "bool", "v": b}),
        Val::Array(a) => json!({"k": "array", "v": a.iter().map(|x| enc_float(*x)).collect::<Vec<_>>()}),
        Val::None => json!({"k": "none"}),
        Val::Error(_) => json!({"k": "err"}),
    }
}

/// bounds: (MIN, MAX) of the integer type as f64, for the named floats just outside / on the edge of its range
fn dec_float<F: Float>(d: &Value, bounds: (f64, f64)) -> F {
    let name = d.get("name").and_then(|n| n.as_str()).unwrap_or("");
    let v: f64 = match (d["c"].as_str().unwrap_or(""), name) {
        (_, "maxp1") => bounds.1 + 1.0,
        (_, "maxp1h") => bounds.1 + 1.5,
        (_, "minm1") => bounds.0 - 1.0,
        (_, "minmh") => bounds.0 - 0.5,
        ("nan", _) => f64::NAN,
        ("pinf", _) => f64::INFINITY,
        ("ninf", _) => f64::NEG_INFINITY,
        (_, "nzero") => -0.0,
        (_, "huge") => 1e10,
        (_, "nhuge") => -1e10,
        (_, "third") => 1.0 / 3.0,
        _ => d["q"].as_i64().unwrap_or(0) as f64 / 4.0,
    };
    F::from(v).unwrap()
}

fn dec<I, F>(d: &Value) -> Val<I, F>
where
    I: DataType + PrimInt + Signed,
    F: DataType + Float,
{
    match d["k"].as_str().unwrap_or("") {
        "int" => {
            let n: i64 = match d.get("name").and_then(|n| n.as_str()) {
                Some("big") => 1 << 40,
                Some("nbig") => -(1 << 40),
                Some("min64") => i64::MIN,
                Some("max64") => i64::MAX,
                _ => d["v"].as_i64().unwrap(),
            };
            Val::Int(I::from(n).expect("catalogue integer must fit the width"))
        }
        "float" => Val::Float(dec_float(d, (I::min_value().to_f64().unwrap(), I::max_value().to_f64().unwrap()))),
        "bool" => Val::Bool(d["v"].as_bool().unwrap()),
        "array" => Val::Array(d["v"].as_array().unwrap().iter().map(|x| dec_float(x, (0.0, 0.0))).collect()),
        "none" => Val::None,
        _ => Val::Error(exmex::ExError::new("catalogue error value")),
    }
}

/// literal spelling of a catalogue value for the value matcher, if it has one
fn literal(d: &Value) -> Option<String> {
    fn flt(d: &Value) -> Option<String> {
        if d["x"].as_bool() != Some(true) || d.get("name").and_then(|n| n.as_str()).unwrap_or("") != "" {
            return None;
        }
        let q = d["q"].as_i64()?;
        let s = format!("{:?}", q.abs() as f64 / 4.0);
        Some(if q < 0 { format!("(-{s})") } else { s })
    }
    match d["k"].as_str()? {
        "int" => {
            if d.get("name").is_some() {
                return None;
            }
            let n = d["v"].as_i64()?;
            Some(if n < 0 { format!("(-{})", -(n as i128)) } else { n.to_string() })
        }
        "float" => flt(d),
        "bool" => Some(d["v"].as_bool()?.to_string()),
        "array" => {
            let a = d["v"].as_array()?;
            if a.is_empty() {
                return None;
            }
            let parts: Option<Vec<String>> = a
                .iter()
                .map(|x| {
                    let q = x["q"].as_i64()?;
                    if x["x"].as_bool() != Some(true) || x.get("name").and_then(|n| n.as_str()).unwrap_or("") != "" {
                        return None;
                    }
                    Some(format!("{:?}", q as f64 / 4.0))
                })
                .collect();
            Some(format!("[{}]", parts?.join(", ")))
        }
        _ => None,
    }
}

fn run<I, F>(rec: &Value) -> Value
where
    I: DataType + PrimInt + Signed,
    F: DataType + Float,
    <I as FromStr>::Err: Debug,
    <F as FromStr>::Err: Debug,
{
    let op = rec["op"].as_str().unwrap();
    let ar = rec["ar"].as_u64().unwrap();
    let panic = json!({"k": "panic"});
    let skip = json!({"k": "skip"});
    let table = ValOpsFactory::<I, F>::make();
    let o = table.iter().find(|o| o.repr() == op).expect("operator of the catalogue must exist in the value table");
    let direct = guarded(|| {
        if ar == 2 {
            let f = o.bin().expect("binary").apply;
            enc(&f(dec::<I, F>(&rec["a"]), dec::<I, F>(&rec["b"])))
        } else {
            let f = o.unary().expect("unary");
            enc(&f(dec::<I, F>(&rec["a"])))
        }
    })
    .unwrap_or(panic.clone());
    let alpha = op.chars().all(|c| c.is_alphanumeric() || c == '_');
    let text_var = if ar == 2 { format!("a {op} b") } else if alpha { format!("{op}(a)") } else { format!("{op} a") };
    let via_var = guarded(|| -> Value {
        match parse_val::<I, F>(&text_var) {
            Err(_) => json!({"k": "parse_err"}),
            Ok(e) => {
                let vals: Vec<Val<I, F>> =
                    if ar == 2 { vec![dec(&rec["a"]), dec(&rec["b"])] } else { vec![dec(&rec["a"])] };
                match e.eval(&vals) {
                    Ok(v) => enc(&v),
                    Err(_) => json!({"k": "eval_err"}),
                }
            }
        }
    })
    .unwrap_or(panic.clone());
    let lits = if ar == 2 { literal(&rec["a"]).zip(literal(&rec["b"])) } else { literal(&rec["a"]).map(|a| (a, String::new())) };
    let via_lit = match lits {
        None => skip.clone(),
        Some((la, lb)) => {
            let text = if ar == 2 { format!("{la} {op} {lb}") } else if alpha { format!("{op}({la})") } else { format!("{op} {la}") };
            guarded(|| -> Value {
                match parse_val::<I, F>(&text) {
                    // a literal that does not fit the width is not a case of this family
                    Err(_) => json!({"k": "skip"}),
                    Ok(e) => match e.eval(&[]) {
                        Ok(v) => enc(&v),
                        Err(_) => json!({"k": "eval_err"}),
                    },
                }
            })
            .unwrap_or(panic.clone())
        }
    };
    json!({"direct": direct, "var": via_var, "lit": via_lit})
}

pub fn main(args: &[String]) -> i32 {
    let o = Opts::parse(args);
    let mut logf: Option<std::fs::File> = o.get("tlc-log").map(|p| std::fs::File::create(p).expect("log file"));
    let stdin = std::io::stdin();
    let stdout = std::io::stdout();
    let mut out = std::io::BufWriter::new(stdout.lock());
    let (mut n, mut runs, mut fwd, mut panics) = (0u64, 0u64, 0u64, 0u64);
    for_each_record(stdin.lock(), logf.as_mut().map(|f| f as &mut dyn Write), |rec| {
        if rec.get("op").is_none() {
            return;
        }
        n += 1;
        let res = match rec["w"].as_u64().unwrap_or(32) {
            8 => run::<i8, f32>(&rec),
            16 => run::<i16, f64>(&rec),
            64 => run::<i64, f64>(&rec),
            _ => run::<i32, f64>(&rec),
        };
        runs += 3;
        for k in ["direct", "var", "lit"] {
            if res[k]["k"] == "panic" {
                panics += 1;
            }
        }
        fwd += 1;
        let mut m = rec.as_object().unwrap().clone();
        m.insert("case".into(), json!(fwd));
        m.insert("res".into(), res);
        let _ = writeln!(out, "{}", Value::Object(m));
    });
    let _ = out.flush();
    let summary = json!({"cases": n, "runs": runs, "forwarded": fwd, "panics": panics});
    if let Some(p) = o.get("summary") {
        std::fs::write(p, summary.to_string()).expect("summary");
    } else {
        eprintln!("{summary}");
    }
    0
}

/// seeded random operand cases (direction B); the requirement is computed by the judge
pub fn main_fuzz(args: &[String]) -> i32 {
    use rand::rngs::StdRng;
    use rand::seq::IndexedRandom;
    use rand::{Rng, SeedableRng};
    let o = Opts::parse(args);
    let n = o.num("n", 1000);
    let stream = o.num("stream", 0);
    let mut rng = StdRng::seed_from_u64(crate::util::seed().wrapping_mul(0x9E3779B97F4A7C15).wrapping_add(77 + stream));
    let table = ValOpsFactory::<i32, f64>::make();
    let bins: Vec<&str> = table.iter().filter(|o| o.has_bin()).map(|o| o.repr()).collect();
    let uns: Vec<&str> = table.iter().filter(|o| o.has_unary()).map(|o| o.repr()).collect();
    let stdout = std::io::stdout();
    let mut out = std::io::BufWriter::new(stdout.lock());
    for _ in 0..n {
        let w = *[8u32, 16, 32].choose(&mut rng).unwrap();
        let (lo, hi) = (-(1i64 << (w - 1)), (1i64 << (w - 1)) - 1);
        let mut val = |rng: &mut StdRng| -> Value {
            match rng.random_range(0..10) {
                0..=3 => {
                    let v = match rng.random_range(0..5) {
                        0 => *[lo, lo + 1, hi, hi - 1, 0, -1, 1].choose(rng).unwrap(),
                        1 => rng.random_range(-20..=20),
                        _ => rng.random_range(lo..=hi),
                    };
                    json!({"k": "int", "v": v})
                }
                4..=6 => {
                    let q: i64 = match rng.random_range(0..3) { 0 => rng.random_range(-40..=40), 1 => rng.random_range(-4000..=4000), _ => rng.random_range(-4000000..=4000000) };
                    json!({"k": "float", "c": if q == 0 { "zero" } else { "fin" }, "s": q.signum(), "x": true, "q": q, "name": ""})
                }
                7 => {
                    let (c, s, nm) = *[("nan", 0, "nan"), ("pinf", 1, "pinf"), ("ninf", -1, "ninf"), ("fin", 1, "huge"), ("fin", -1, "nhuge"), ("fin", 1, "third")].choose(rng).unwrap();
                    json!({"k": "float", "c": c, "s": s, "x": false, "q": 0, "name": nm})
                }
                8 => json!({"k": "bool", "v": rng.random_bool(0.5)}),
                _ => {
                    let l = rng.random_range(0..=5);
                    let v: Vec<Value> = (0..l).map(|_| { let q: i64 = rng.random_range(-40..=40); json!({"k": "float", "c": if q == 0 { "zero" } else { "fin" }, "s": q.signum(), "x": true, "q": q, "name": ""}) }).collect();
                    json!({"k": "array", "v": v})
                }
            }
        };
        let rec = if rng.random_bool(0.75) {
            json!({"w": w, "op": bins.choose(&mut rng).unwrap(), "ar": 2, "a": val(&mut rng), "b": val(&mut rng)})
        } else {
            json!({"w": w, "op": uns.choose(&mut rng).unwrap(), "ar": 1, "a": val(&mut rng)})
        };
        let _ = writeln!(out, "{rec}");
    }
    0
}
