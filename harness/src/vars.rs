//! Variable discovery, order and binding (C04): every form, every evaluation variant, every slice length.
use crate::dynops;
use crate::expr::{Deep, Flat};
use crate::term::{cps, uncps, Term};
use crate::util::{for_each_record, guarded, Opts};
use exmex::prelude::*;
use exmex::{ExResult, Express};
use serde_json::{json, Value};
use std::io::Write;

/// the k-th passed value is `Var(name_k)`; surplus values are `Var("#extra<k>")`
fn values(names: &[String], len: usize) -> Vec<Term> {
    (0..len).map(|k| Term::Var(names.get(k).cloned().unwrap_or_else(|| format!("#extra{k}")))).collect()
}

fn res_json(r: Result<ExResult<Term>, String>) -> Value {
    match r {
        Err(_) => json!({"outcome": "panic"}),
        Ok(Err(_)) => json!({"outcome": "err"}),
        Ok(Ok(t)) => json!({"outcome": "ok", "den": t.to_json()}),
    }
}

fn evals_flat(e: &Flat, extra: usize) -> Vec<Value> {
    let names = e.var_names().to_vec();
    let mut out = vec![];
    for len in 0..=names.len() + extra {
        for mode in ["eval", "relaxed", "vec", "iter"] {
            let vals = values(&names, len);
            let r = guarded(|| match mode {
                "eval" => e.eval(&vals),
                "relaxed" => e.eval_relaxed(&vals),
                "vec" => e.eval_vec(vals.clone()),
                _ => e.eval_iter(vals.clone().into_iter()),
            });
            let mut j = res_json(r);
            j["mode"] = json!(mode);
            j["len"] = json!(len);
            out.push(j);
        }
    }
    out
}
fn evals_deep(e: &Deep, extra: usize) -> Vec<Value> {
    let names = e.var_names().to_vec();
    let mut out = vec![];
    for len in 0..=names.len() + extra {
        for mode in ["eval", "relaxed"] {
            let vals = values(&names, len);
            let r = guarded(|| if mode == "eval" { e.eval(&vals) } else { e.eval_relaxed(&vals) });
            let mut j = res_json(r);
            j["mode"] = json!(mode);
            j["len"] = json!(len);
            out.push(j);
        }
    }
    out
}

fn form(name: &str, text: &'static str, extra: usize) -> Value {
    let names_json = |v: &[String]| Value::Array(v.iter().map(|s| cps(s)).collect());
    let r = guarded(|| -> ExResult<Value> {
        Ok(match name {
            "flat" => {
                let e = Flat::parse(text)?;
                json!({"vars": names_json(e.var_names()), "evals": evals_flat(&e, extra)})
            }
            "flat_wo" => {
                let e = Flat::parse_wo_compile(text)?;
                json!({"vars": names_json(e.var_names()), "evals": evals_flat(&e, extra)})
            }
            "deep" => {
                let e = Deep::parse(text)?;
                json!({"vars": names_json(e.var_names()), "evals": evals_deep(&e, extra)})
            }
            "d2f" => {
                let e = Flat::from_deepex(Deep::parse(text)?)?;
                json!({"vars": names_json(e.var_names()), "evals": evals_flat(&e, extra)})
            }
            "f2d" => {
                let e = Flat::parse(text)?.to_deepex()?;
                json!({"vars": names_json(e.var_names()), "evals": evals_deep(&e, extra)})
            }
            // listed variables that do not occur (as a derivative keeps the list of its antiderivative): `e + g*0`, one
            // ghost sorting before and one after the names of the pool
            _ => {
                let mut d = Deep::parse(text)?;
                let ghosts = ["!g", "\u{3c9}\u{3c9}9"];
                for g in ghosts {
                    let gtext: &'static str = Box::leak(format!("{{{g}}}").into_boxed_str());
                    let zero = (Deep::parse(gtext)? * Deep::parse("0")?)?;
                    d = (d + zero)?;
                }
                let gj = Value::Array(ghosts.iter().map(|g| cps(g)).collect());
                if name == "deep_g" {
                    json!({"vars": names_json(d.var_names()), "evals": evals_deep(&d, extra), "ghost": gj})
                } else {
                    let e = Flat::from_deepex(d)?;
                    json!({"vars": names_json(e.var_names()), "evals": evals_flat(&e, extra), "ghost": gj})
                }
            }
        })
    });
    let mut j = match r {
        Err(_) => json!({"outcome": "panic"}),
        Ok(Err(_)) => json!({"outcome": "err"}),
        Ok(Ok(mut v)) => {
            v["outcome"] = json!("ok");
            v
        }
    };
    j["form"] = json!(name);
    j
}

pub fn main(args: &[String]) -> i32 {
    let o = Opts::parse(args);
    let extra = o.num("extra", 2) as usize;
    let forward_all = o.has("forward-all");
    let ghost_every = o.num("ghost-every", 1).max(1);
    let mut logf: Option<std::fs::File> = o.get("tlc-log").map(|p| std::fs::File::create(p).expect("log file"));
    let stdin = std::io::stdin();
    let stdout = std::io::stdout();
    let mut out = std::io::BufWriter::new(stdout.lock());
    let (mut n, mut runs, mut ident, mut fwd) = (0u64, 0u64, 0u64, 0u64);
    for_each_record(stdin.lock(), logf.as_mut().map(|f| f as &mut dyn Write), |rec| {
        if let Some(t) = rec.get("table") {
            dynops::set_table(dynops::table_from_json(t));
            if rec.get("text").is_none() {
                let _ = writeln!(out, "{}", json!({"table": t}));
                return;
            }
        }
        let Some(tv) = rec.get("text") else { return };
        n += 1;
        let text: &'static str = Box::leak(uncps(tv).into_boxed_str());
        // the forms with listed-but-absent variables are never identical to the TLC expectation (always forwarded to the judge):
        // in big enumerations they are built for every `ghost_every`-th text only
        let names: &[&str] = if n % ghost_every == 0 { &["flat", "flat_wo", "deep", "d2f", "f2d", "deep_g", "flat_g"] } else { &["flat", "flat_wo", "deep", "d2f", "f2d"] };
        let forms: Vec<Value> = names.iter().map(|f| form(f, text, extra)).collect();
        runs += forms.iter().map(|f| f.get("evals").and_then(|e| e.as_array()).map(|a| a.len()).unwrap_or(1) as u64).sum::<u64>();
        // identical to the TLC expectation: variable lists equal, strict ok exactly at len = n with the expected
        // tree, relaxed ok exactly from len >= n on
        let same = rec.get("vars").map(|ev| {
            let nv = ev.as_array().map(|a| a.len()).unwrap_or(0);
            forms.iter().all(|f| {
                f.get("ghost").is_none()
                    && f["outcome"] == "ok"
                    && f["vars"] == *ev
                    && f["evals"].as_array().unwrap().iter().all(|e| {
                        let len = e["len"].as_u64().unwrap() as usize;
                        let should = if e["mode"] == "relaxed" { len >= nv } else { len == nv };
                        if should { e["outcome"] == "ok" && Some(&e["den"]) == rec.get("den") } else { e["outcome"] == "err" }
                    })
            })
        }).unwrap_or(false);
        if same {
            ident += 1;
        }
        if !same || forward_all {
            fwd += 1;
            let mut m = serde_json::Map::new();
            m.insert("case".into(), json!(fwd));
            m.insert("text".into(), tv.clone());
            m.insert("forms".into(), Value::Array(forms));
            if let Some(t) = rec.get("table") {
                m.insert("table".into(), t.clone());
            }
            let _ = writeln!(out, "{}", Value::Object(m));
        }
        unsafe { drop(Box::from_raw(text as *const str as *mut str)) };
    });
    let _ = out.flush();
    let summary = json!({"cases": n, "runs": runs, "identical": ident, "forwarded": fwd});
    if let Some(p) = o.get("summary") {
        std::fs::write(p, summary.to_string()).expect("summary");
    } else {
        eprintln!("{summary}");
    }
    0
}
