//! Compile-time half of C20: flat and deep expressions over thread-safe data types are Send and Sync.
//! If this crate stops compiling with a Send/Sync error, the property is violated for every use.
use exmex::{DeepEx, FlatEx, FlatExVal};
fn assert_send_sync<T: Send + Sync>() {}
fn main() {
    assert_send_sync::<FlatEx<f64>>();
    assert_send_sync::<FlatEx<f32>>();
    assert_send_sync::<DeepEx<'static, f64>>();
    assert_send_sync::<DeepEx<'static, f32>>();
    assert_send_sync::<FlatExVal<i32, f64>>();
    assert_send_sync::<exmex::Val<i32, f64>>();
    println!("send+sync ok");
}
