"""What MANIFEST.json claims.  One entry per property that has a working check."""
HOOK_COMMITS = ["f7a29f8"]
NOTES = ("Model-based verification with explicit TLA+ specifications (spec/), TLC, and a Rust recorder (harness/) "
         "that only drives and records; every verdict is computed by TLC. See DESIGN.md.")
ENGINES = [
    {"name": "statement-store", "path": "spec/Stmts.tla spec/MC_Stmts.tla spec/Judge_Stmts.tla", "serves_properties": ["C06"],
     "kind_free_text": "state machine of the statement store (the one stateful API): exhaustive sessions, trace validation of line_2_statement + Statements; beyond the listed properties, drift only"},
    {"name": "reference-spec", "path": "spec/Chars.tla spec/Lex.tla spec/Ref.tla spec/Render.tla spec/Grammar.tla spec/Gen.tla spec/MC_Ref.tla",
     "serves_properties": ["C01", "C02", "C03", "C07", "C08"],
     "kind_free_text": "abstract TLA+ specification of lexing, grammar, meaning (two formulations), AC normal form; bounded-exhaustive generator of cases"},
    {"name": "flat-model", "path": "spec/FlatImpl.tla spec/MC_Flat.tla", "serves_properties": ["C01", "C02"],
     "kind_free_text": "implementation-shaped TLA+ model of make_expression, prioritized_indices_flat, eval_binary, compile; TLC refinement check"},
    {"name": "deep-model", "path": "spec/DeepImpl.tla spec/MC_Deep.tla", "serves_properties": ["C02", "C03"],
     "kind_free_text": "implementation-shaped TLA+ model of the deep parser, DeepEx::compile, flatten_vecs, flatex_to_deepex; TLC refinement check"},
    {"name": "lexer-model", "path": "spec/LexImpl.tla spec/MC_Lex.tla spec/LexTables.tla spec/MC_Call.tla spec/Judge_Lex.tla", "serves_properties": ["C08", "C13", "C06", "C07"],
     "kind_free_text": "implementation-shaped TLA+ model of tokenize_and_analyze and check_parsed_token_preconditions; TLC equivalence with the abstract lexer on all short texts; call-form refinement on trees"},
    {"name": "tracker-model", "path": "spec/Tracker.tla spec/MC_Sched.tla spec/MC_Chain.tla spec/Judge_Sched.tla", "serves_properties": ["C14"],
     "kind_free_text": "bit-level model of NumberTracker; enumeration of all application orders; judge of recorded tracker answers"},
    {"name": "value-semantics", "path": "spec/ValSem.tla spec/MC_Val.tla spec/Judge_Val.tla", "serves_properties": ["C16", "C17"],
     "kind_free_text": "TLA+ semantics of the mixed value type; TLC lemma for its overflow-free integer formulas; enumeration of the operator x catalogue grid; judge"},
    {"name": "session-spec", "path": "spec/Exmex.tla spec/MC_Exmex.tla spec/Judge_Calc.tla spec/Field.tla spec/Jets.tla spec/PartialImpl.tla spec/MC_Diff.tla spec/DiffTables.tla",
     "serves_properties": ["C05", "C09", "C10", "C11", "C12"],
     "kind_free_text": "session machine (pool of immutable expressions, one action per API call), field and power-series semantics, transcription of the differentiation rules; history enumeration; trace validation of recorded sessions"},
    {"name": "float-axioms", "path": "spec/FloatSem.tla spec/Judge_Float.tla spec/Judge_FloatExpr.tla", "serves_properties": ["C19"],
     "kind_free_text": "fixed-point axioms of the default float operators and constants + special-value class table, evaluated by TLC on recorded values"},
    {"name": "piecewise-judge", "path": "spec/Piecewise.tla spec/Judge_ValDiff.tla", "serves_properties": ["C18"],
     "kind_free_text": "power-series judge with exact rational branch selection for value-typed piecewise derivatives read through the dump hook"},
    {"name": "threads-model", "path": "spec/Threads.tla spec/Judge_Threads.tla harness_sendsync/", "serves_properties": ["C20"],
     "kind_free_text": "interleaving model with the lazy-static once-cell; per-event trace validation of multi-thread recordings; compile-time Send/Sync assertions"},
    {"name": "recorder", "path": "harness/", "serves_properties": ["C01", "C02", "C03"],
     "kind_free_text": "Rust crate driving the real exmex with a free term algebra as data type and run-time operator tables; records observations as ndjson"},
    {"name": "judge", "path": "spec/Judge_Expr.tla", "serves_properties": ["C01", "C02", "C03"],
     "kind_free_text": "TLC trace judge: recomputes the meaning of every recorded text with the reference spec and compares modulo AC"},
]
MC = "model_checking"
BASE_NOTE = ("Trusted: TLC, the TLA+ reference specification (two independent formulations cross-checked by TLC), the "
             "recorder's Term/DynOps plumbing (self-test corrupts records and expects rejection). Bounded: trees up to "
             "3 leaves over the 11-operator table T8 and 4 leaves over T5 (quick), deeper in thorough. ")
CLAIMS = {
    "C01": dict(category=MC, technique="TLA+ reference semantics + TLC refinement check of an implementation-shaped model + replay of every TLC-enumerated case into the real code, TLC-judged",
                text="Bounded-exhaustive: TLC enumerates every tree x rendering inside the bound, proves the two formulations of the documented semantics agree on it, "
                     "proves the implementation-shaped model of the flat pipeline refines it, and every enumerated text is replayed through FlatEx::parse/parse_wo_compile with a free term algebra; "
                     "non-identical results are judged by TLC modulo AC of flagged operators.",
                note=BASE_NOTE + "All data types: decided for the free algebra, transferred by parametricity of the generic code."),
    "C02": dict(category=MC, technique="TLC refinement check of the two constant folders (FlatImpl.Compile, DeepImpl.DCompile) + 5-way differential replay judged against the TLA+ reference",
                text="Same enumeration as C01; folded, unfolded, re-folded (once and twice) and deep results of every case are each compared with the reference meaning modulo AC.",
                note=BASE_NOTE),
    "C03": dict(category=MC, technique="TLC refinement check of DeepImpl (parser, compile, flatten_vecs, flatex_to_deepex) + replay of every TLC-enumerated case through 7 conversion words + TLC-judged random traces incl. token soup",
                text="Flat/deep parsing and every conversion word f2d, fwo2d, d2f, f2d2f, d2f2d are compared with the reference meaning (variables + value modulo AC); "
                     "for strings outside the grammar all accepting entry points must agree; operator listings are judged against the listing specification.",
                note=BASE_NOTE + "Listings are judged on sampled (1/6) direction-A records and on every direction-B record."),
    "C08": dict(category=MC, technique="TLA+ desugaring rule + TLC check of the tokenizer model (stack of pending calls) on all trees x call-form subsets and on all texts <= 5 over a call alphabet + replay into the real parsers",
                text="Every tree with <= 4 leaves over the call-form table, every non-empty subset of its binary operators written as op(l, r) (nested in first and second arguments, under unaries, inside extra parentheses) "
                     "is (1) shown to desugar to the tree in the abstract spec, (2) shown to be tokenised to exactly the desugared tokens by the tokenizer model, (3) replayed through FlatEx/DeepEx and judged.",
                note=BASE_NOTE),
    "C13": dict(category=MC, technique="declarative TLA+ lexer vs implementation-shaped tokenizer model checked by TLC on all texts <= L over prefix-family alphabets + replay of every text through the real tokenizer hook + TLC-judged random name mutations",
                text="All texts up to length 5-6 over four prefix families (l/lo/log/log2/log10, </<=/<</==, s/si/sin/sinh + constants E/e/PI/pi, braces/literals/Greek) are tokenised by the real tokenizer and compared with the abstract longest-exact-match rules; "
                     "random texts over the real float and value tables are judged at token level and at API level.",
                note="Trusted: TLC, Lex.tla. Unterminated braces, empty braces and alphabetic binary names glued to identifiers are unconstrained. Code points abstract bytes in the model; the real code sees real UTF-8."),
    "C07": dict(category=MC, technique="TLA+ grammar + damage operators; TLC shows every damaged rendering is in a must-reject class and is rejected by the front-end/builder models; replay of every damaged text into the real parsers; TLC-classified random damaged texts over the real tables",
                text="Every single-point damage (paren deleted/inserted at every position, binary operator appended, operand inserted beside every operand, illegal character at every position, blank) of every rendering incl. call form of every tree in the bound must give an error from FlatEx::parse, parse_wo_compile and DeepEx::parse; "
                     "random damaged expressions over the real float/value tables must be rejected by parse, eval_str, parse_val and the statement parsers whenever Grammar.Classify puts the text in a must-reject class.",
                note=BASE_NOTE + "Which error message is produced is not constrained."),
    "C14": dict(category=MC, technique="bit-level TLA+ model of NumberTracker checked by TLC in every reachable state (= every schedule) + all n! application orders replayed on the real trackers (hook) and through the public API + TLC-judged long chains across the word boundaries",
                text="Tracker.tla shows the rotate/leading-ones/trailing-ones/carry algorithm equals the alive-vector meaning for word sizes 3-12 and up to 5 words; all 7! (quick) / 8! (thorough) application orders are run on the real usize and [usize] trackers at offsets around bits 63|64 and 127|128 "
                     "and as chains with distinct priorities through FlatEx/DeepEx; chains of up to 300 operands with structured orders are judged from their text.",
                note="Trusted: TLC, Tracker.tla's reading of the Rust bit operations at parametric word size (the real 64-bit words are exercised by the replay). The literal 64 in the carry loop is modelled as W."),
    "C15": dict(category=MC, technique="TLA+ model of the take-or-clone scan checked by TLC on all occurrence patterns + replay with a clone-counting data type, TLC-judged",
                text="All 5461 (quick) / 21845 (thorough) occurrence patterns of three variables and literals over <= 6/7 operands: FlatImpl.Consume never reads a moved-out slot; the real eval_vec/eval_iter results are identical to eval, contain no Default placeholder, and single-occurrence variables are never cloned; random larger expressions likewise.",
                note="Trusted: TLC, the Counted wrapper of the recorder (clone counter per passed value)."),
    "C04": dict(category=MC, technique="TLA+ variable rules (sorted distinct names, bare = braced) + TLC enumeration of name sequences replayed through 5 forms x 4 evaluation variants x all slice lengths with index-revealing values, TLC-judged",
                text="Every text over the order-stressing name pool up to 3 (quick) / 4 (thorough) names: variable list = sorted distinct names in all five forms; strict evaluation succeeds exactly at the right length, relaxed from the right length on, never a panic; the k-th value is the term Var(name_k) so a wrong binding is visible in the value. Random expressions with up to 40 variables likewise.",
                note="Trusted: TLC, Chars.StrLess as Rust's byte order on UTF-8 (= code point order). Derived-expression variable lists are judged in C09-C11."),
    "C16": dict(category=MC, technique="TLA+ value semantics (ValSem: width-parametric checked integer arithmetic, IEEE class algebra, typing/error rules) with TLC-checked arithmetic lemma + full operator x catalogue product replayed on the real operators (3 routes) and TLC-judged + random traces over a mirror of the value table",
                text="For widths 8, 16 and 32: every binary operator on every ordered pair and every unary operator on every value of a 39-value catalogue (MIN, MAX, 0, -1, shift counts, NaN, inf, -0.0, huge, arrays of length 0-5, none, error) plus random operands; "
                     "the required result (exact value, error value, kind) comes from ValSem and is compared for the direct function call, for variables of parse_val and for folded literals. Precedence over the value table is judged on random expressions with the table mirrored from make() and only truly associative-commutative operators regroupable.",
                note="Trusted: TLC, ValSem.tla (its integer formulas are checked against plain arithmetic on all pairs of a 7/8-bit width). Floats exact only on quarter units of small magnitude; inexact results by kind and class."),
    "C17": dict(category=MC, technique="same TLC-enumerated grid as C16: every outcome must be a value (no panic) and the listed problem inputs must give an error value, judged by TLC with ValSem",
                text="No panic for any operator x operand pair of the catalogue at widths 8, 16, 32 and 64 (named wide integers: 2^40, i64::MIN/MAX) through all three routes incl. parse-time folding, nor for random operands; "
                     "invalid casts, -MIN, abs(MIN), MIN % -1, float ^ unrepresentable exponent and wrong operand kinds must be error values.",
                note="Trusted: TLC, ValSem.tla; recorder built with overflow checks so that wrapping arithmetic cannot hide."),
    "C06": dict(category=MC, technique="TLC exploration of ALL token sequences (<= 7/8) and ALL character strings (<= 5/6) through the implementation-shaped front-end/builder models with explicit failure states + replay of each of them into every entry point of the real library, tallied against TLC's state count + hostile big inputs in separate processes",
                text="MC_Tok: no failure state (index, unwrap, assert) reachable in preconditions -> flat builder -> compile -> deepen -> flatten nor in the deep builder for any token sequence; accepted iff not in a must-reject class; MC_Lex: tokenizer model total on every string. "
                     "Every enumerated text goes through flat, deep, uncompiled, eval_str, parse_val and both statement parsers (+ evaluation, conversions, unparse, listings, partial on accepted ones); outcome must be ok or err. Soup of 1000 tokens and nesting to 100 run in their own process.",
                note="Trusted: TLC; the panic capture of the recorder (catch_unwind; an abort kills the pipeline and is reported). Hangs are not decided beyond 'everything returned'; deeper recursion limits of the deep form are out of scope as the property says."),
    "C05": dict(category=MC, technique="TLA+ transcription of the differentiation rules checked by TLC against a truncated-power-series model of analysis (IsPartial) + trace validation of recorded differentiation sessions (programs typed by base point) against the session spec",
                text="MC_Diff: PartialImpl.D (rule table, inner x outer chain structure) yields the true derivative as a power series for every small tree over the functions' base points, first and second order, and fails exactly on operators without rule. "
                     "The real partial() of flat, uncompiled and deep expressions (parsed, converted, already differentiated) over + - * / ^ and 18 elementary functions is recorded with an exact symbolic data type and must equal D as a series along a direction in which every variable moves.",
                note="Trusted: TLC, Field.tla/Jets.tla (a field with free function symbols / truncated series; a wrong value escapes with probability ~1e-4 per point, 3 points), the recorder's exact-rational symbolic type Sym.  Floats: transferred by parametricity of partial.rs in T, not by a float oracle; rounding is not decided."),
    "C09": dict(category=MC, technique="session specification (Exmex.tla) + TLC-enumerated and random index sequences replayed and trace-validated; hook events for 'before any work'",
                text="Index >= number of variables is an error for partial, partial_nth and partial_iter with no partial_deepex hook event before it; the variable list is kept; partial_nth and partial_iter equal the iterated single derivative (series comparison), order zero is the identity, mixed partials agree.",
                note="Trusted: TLC, Field.tla/Jets.tla (a field with free function symbols / truncated series; a wrong value escapes with probability ~1e-4 per point, 3 points), the recorder's exact-rational symbolic type Sym.  An order-zero call with an invalid index is left unconstrained."),
    "C10": dict(category=MC, technique="session specification with append-only pool checked by TLC (totality, sorted unions) + replay of all short histories and random long ones, values compared in a field with free function symbols",
                text="operate_unary/operate_binary by name, the 24 named helpers, + - * / pow neg on flat (via deep and back) and deep expressions: result over the sorted union of the variables, value = operator applied to the operands' values; neutral-element shortcuts are accepted exactly when they are valid field identities; unknown names are errors.",
                note="Trusted: TLC, Field.tla/Jets.tla (a field with free function symbols / truncated series; a wrong value escapes with probability ~1e-4 per point, 3 points), the recorder's exact-rational symbolic type Sym. "),
    "C11": dict(category=MC, technique="session specification (simultaneous Subst, sorted union) + replay of all short substitution histories and random ones, field-semantic comparison",
                text="subs with empty, renaming, swapping, constant and self-referential maps, repeated, on flat and deep: value = original with each replaced variable bound to its replacement (not re-substituted); variable list between the occurring and the specified union.",
                note="Trusted: TLC, Field.tla/Jets.tla (a field with free function symbols / truncated series; a wrong value escapes with probability ~1e-4 per point, 3 points), the recorder's exact-rational symbolic type Sym.  Known finding F8 (unused listed variables are dropped) is reported, not counted."),
    "C12": dict(category=MC, technique="session specification (Reparse o Unparse = identity on (vars, value)) + trace validation of unparse->parse and serde round trips after arbitrary calculus histories, incl. tables with colliding alphabetic names",
                text="A parsed flat expression prints its text verbatim; deep and derived expressions (conversion, operator application, substitution, differentiation) print to a text that parses back to the same variables and value; serde round trip likewise; adversarial operator-name tables (binary `at` + unary `an` vs unary `atan`).",
                note="Trusted: TLC, Field.tla/Jets.tla (a field with free function symbols / truncated series; a wrong value escapes with probability ~1e-4 per point, 3 points), the recorder's exact-rational symbolic type Sym.  Literals print through Debug of the symbolic type (`@k` for non-integers), which satisfies the property's precondition. Known finding F8 is reported, not counted."),
    "C18": dict(category=MC, technique="power-series judge extended to piecewise expressions (Piecewise.tla: branch selection by exact rational evaluation of the conditions) applied to derivative structures recorded through the verif_dump hook; rule table model-checked by MC_Diff",
                text="Seeded programs `f if cond else g` (nested, arithmetic around, elementary functions at their base points, comparison conditions strictly inside a branch) over the value type: parse_val(text).partial(k) must be, as a power series at the point, the derivative of the branch the conditions select; conditions must survive untouched; out-of-range indices are errors.",
                note="Trusted: TLC, Piecewise.tla/Jets.tla, the hook dump of FlatExVal. Integers and floats are identified as reals; programs whose own value depends on integer division fall under known finding F6. Known findings F6 and F10 are reported, not counted."),
    "C19": dict(category="other", technique="axiomatic TLA+ characterisation of the float operators in fixed point (FloatSem.tla), evaluated by TLC on values recorded from the real operator table",
                text="Every one of the 34 operators and 6 constants of FloatOpsFactory for f32 and f64 is applied on a grid and on special values, directly and through parsed infix/call-form expressions; TLC checks each result against exact fixed-point arithmetic, Taylor polynomials or the defining equation of the named function (incl. argument order and quadrant of atan2, principal ranges of the inverse functions, natural log for log and ln) at a tolerance of 3e-3, and special values against a class table.",
                note="Not decided: accuracy to within floating-point rounding (the technique has no floats) - identity/argument order/special classes only. Trusted: TLC, FloatSem.tla, the recorder's rounding to fixed point."),
    "C20": dict(category=MC, technique="TLA+ interleaving model (clients, shared immutable pool, once-cell of the lazy regexes) checked exhaustively by TLC incl. liveness + Send/Sync decided by the Rust type checker + trace validation of recorded 16-thread runs (events validated in isolation)",
                text="Threads.tla: all interleavings of 3-4 clients give sequential results, the pool is immutable, the regex cell is initialised once, no deadlock, all clients finish. Real code: a separate crate asserts Send + Sync for FlatEx/DeepEx/FlatExVal at compile time; fresh 16-thread processes race on first-use parsing and evaluate shared expressions, every event must equal the sequential function of its arguments (reference semantics for the symbolic type, bit-identical sequential re-run for f64), structural dumps before/after are identical.",
                note="Real schedules are sampled, not enumerated; the every-schedule claim rests on the type checker plus the validated absence of state change. Trusted: TLC, the reference spec, std::thread."),
}
# additions made while strengthening the checks against seeded changes (see seeded/INDEX.md)
EXTRA = {
    "C03": "Direction B includes one-level chains of up to 66 operands with priority ties.",
    "C04": "Derived lists: sessions over a pool of 40 names (merged lists beyond the inline capacity of 16) through operator application, substitution and conversion.",
    "C06": "Value-typed texts with array literals and array-valued variables; long texts without nesting (20-500 operands) through parse, conversions and partial, one process per case: known finding F11 (stack exhaustion from ~100 operands in FlatEx::partial) is reported, any other abort is a violation. The statement store (Stmts.tla: assignment, re-assignment, one-level resolution) is explored exhaustively for sessions of <= 3/4 lines and trace-validated on the real Statements type; only a panic is a violation there, other differences are reported as drift.",
    "C12": "Text-level direction A: every enumerated tree x rendering over T8 and over the adversarial-name table TAdv printed from the deep form three ways and parsed back; DeepImpl.Unparse (transcription of unparse_raw) is model-checked (UnparseRefines) and the printer of the pinned snapshot must violate the invariant.",
    "C14": "Chains are capped at 250 operands (TLC's JSON reader nests at most 255 deep); 6000 random schedules of up to 200 operands on the real trackers are judged by Tracker.tla.",
    "C15": "Every subset of absent variables is additionally listed without occurring (built as e + g*0 through the deep form); one variable occurring up to 300 times.",
    "C17": "The catalogue contains the floats MAX+1, MAX+1.5, MIN-1 (must be errors under to_int) and MIN-0.5 (must be MIN) for every width.",
    "C18": "Two routes: parse_val(text).partial(k) and DeepEx::parse(text).partial(k); half of the conditions without parentheses around their operands.",
    "C19": "Special values of `^` follow the IEEE 754 / C99 table of pow (signed zeros, infinities, infinite exponents, exact sign of zero). Composite expressions over the real table (+ - * / min max and signs; infix with and without parentheses, call form, nested) are evaluated as flat and deep expressions over f64 and f32 at dyadic points and compared with the exact rational value of the reference meaning (Judge_FloatExpr).",
    "C20": "Two operator tables of the same size over the same data type in one process (alternating and forced first-use order), shared expressions of 70 and 135 operands evaluated in opposite orders, a shared deep expression with 60 nesting levels evaluated 400 times per thread behind a barrier.",
    "C01": "Model conformance is also step level: the compile decisions and eval_binary steps FlatImpl predicts are compared with the hook events of the real run (MODEL-DRIFT, never a violation).",
}
for _k, _v in EXTRA.items():
    CLAIMS[_k]["text"] = CLAIMS[_k]["text"].rstrip() + " " + _v
NOT_YET = {}
