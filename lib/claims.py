"""What MANIFEST.json claims.  One entry per property that has a working check."""
HOOK_COMMITS = ["f7a29f8"]
NOTES = ("Model-based verification with explicit TLA+ specifications (spec/), TLC, and a Rust recorder (harness/) "
         "that only drives and records; every verdict is computed by TLC. See DESIGN.md.")
ENGINES = [
    {"name": "reference-spec", "path": "spec/Chars.tla spec/Lex.tla spec/Ref.tla spec/Render.tla spec/Grammar.tla spec/Gen.tla spec/MC_Ref.tla",
     "serves_properties": ["C01", "C02", "C03", "C07", "C08"],
     "kind_free_text": "abstract TLA+ specification of lexing, grammar, meaning (two formulations), AC normal form; bounded-exhaustive generator of cases"},
    {"name": "flat-model", "path": "spec/FlatImpl.tla spec/MC_Flat.tla", "serves_properties": ["C01", "C02"],
     "kind_free_text": "implementation-shaped TLA+ model of make_expression, prioritized_indices_flat, eval_binary, compile; TLC refinement check"},
    {"name": "deep-model", "path": "spec/DeepImpl.tla spec/MC_Deep.tla", "serves_properties": ["C02", "C03"],
     "kind_free_text": "implementation-shaped TLA+ model of the deep parser, DeepEx::compile, flatten_vecs, flatex_to_deepex; TLC refinement check"},
    {"name": "recorder", "path": "harness/", "serves_properties": ["C01", "C02", "C03"],
     "kind_free_text": "Rust crate driving the real exmex with a free term algebra as data type and run-time operator tables; records observations as ndjson"},
    {"name": "judge", "path": "spec/Judge_Expr.tla", "serves_properties": ["C01", "C02", "C03"],
     "kind_free_text": "TLC trace judge: recomputes the meaning of every recorded text with the reference spec and compares modulo AC"},
]
MC = "model_checking"
BASE_NOTE = ("Trusted: TLC, the TLA+ reference specification (two independent formulations cross-checked by TLC), the "
             "recorder's Term/DynOps plumbing (self-test corrupts records and expects rejection). Bounded: trees up to "
             "3 leaves over the 11-operator table T8 and 4 leaves over T5 (quick), deeper in thorough. ")
CLAIMS = {
    "C01": dict(category=MC, technique="TLA+ reference semantics + TLC refinement check of an implementation-shaped model + replay of every TLC-enumerated case into the real code, TLC-judged",
                text="Bounded-exhaustive: TLC enumerates every tree x rendering inside the bound, proves the two formulations of the documented semantics agree on it, "
                     "proves the implementation-shaped model of the flat pipeline refines it, and every enumerated text is replayed through FlatEx::parse/parse_wo_compile with a free term algebra; "
                     "non-identical results are judged by TLC modulo AC of flagged operators.",
                note=BASE_NOTE + "All data types: decided for the free algebra, transferred by parametricity of the generic code."),
    "C02": dict(category=MC, technique="TLC refinement check of the two constant folders (FlatImpl.Compile, DeepImpl.DCompile) + 5-way differential replay judged against the TLA+ reference",
                text="Same enumeration as C01; folded, unfolded, re-folded (once and twice) and deep results of every case are each compared with the reference meaning modulo AC.",
                note=BASE_NOTE),
    "C03": dict(category=MC, technique="TLC refinement check of DeepImpl (parser, compile, flatten_vecs, flatex_to_deepex) + replay of every TLC-enumerated case through 7 conversion words + TLC-judged random traces incl. token soup",
                text="Flat/deep parsing and every conversion word f2d, fwo2d, d2f, f2d2f, d2f2d are compared with the reference meaning (variables + value modulo AC); "
                     "for strings outside the grammar all accepting entry points must agree; operator listings are judged against the listing specification.",
                note=BASE_NOTE + "Listings are judged on sampled (1/6) direction-A records and on every direction-B record."),
}
NOT_YET = {}
