#!/usr/bin/env python3
"""Regenerates MANIFEST.json from lib/claims.py (run after adding a check)."""
import json
import os
import sys

ROOT = os.path.dirname(os.path.dirname(os.path.abspath(__file__)))
sys.path.insert(0, os.path.join(ROOT, "lib"))
import claims  # noqa: E402

props = [json.loads(l) for l in open(os.path.join(ROOT, "properties.jsonl"))]
checks = []
na = []
for p in props:
    c = claims.CLAIMS.get(p["id"])
    if c is None:
        na.append({"property_id": p["id"], "reason": claims.NOT_YET.get(p["id"], "check not built yet (planned, see DESIGN.md section 6)")})
        continue
    checks.append({
        "property_id": p["id"],
        "quick_cmd": f"bin/check {p['id']} --tier quick",
        "thorough_cmd": f"bin/check {p['id']} --tier thorough",
        "evidence_file": f"/verif/evidence/{p['id']}.json",
        "replay_cmd_template": f"bin/check {p['id']} --replay {{path}}",
        "engine": c.get("engine", "tlc+recorder"),
        "level_claimed": {"category": c["category"], "text": c["text"], "design_ref": c.get("design_ref", "DESIGN.md section 6")},
        "level_note": c["note"],
        "technique": c["technique"],
    })
m = {
    "version": 1,
    "setup_cmd": "bin/setup",
    "hooks": {"guard": "exmex_verif",
              "enable": "rustflags --cfg exmex_verif in harness/.cargo/config.toml; the recorder has a path dependency on /repo and is rebuilt by every check",
              "baseline_off_cmd": "cd /repo && cargo test --workspace --no-fail-fast --offline",
              "source_commits": claims.HOOK_COMMITS, "add_only": True},
    "engines": claims.ENGINES,
    "checks": checks,
    "notes": claims.NOTES,
    "not_applicable": na,
}
json.dump(m, open(os.path.join(ROOT, "MANIFEST.json"), "w"), indent=1)
print(f"{len(checks)} checks claimed, {len(na)} not applicable/not yet")
