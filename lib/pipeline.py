"""Direction A/B plumbing: TLC generator -> recorder -> TLC judge."""
import json
import os
import re
import subprocess
import time

from vlib import (JAR, OUT, RECORDER, SPEC, ToolError, TlcResult, log, parallel, run_tlc, seed, tlc_or_die,
                  write_cfg)


def _tlc_cmd(module, cfg_path, meta, heap="3g", workers=1):
    gc = ["-XX:+UseSerialGC", "-XX:CICompilerCount=2"] if workers <= 2 else ["-XX:+UseParallelGC", "-XX:ParallelGCThreads=4"]
    return ["java", "-Xss1g", f"-Xmx{heap}"] + gc + ["-cp", JAR,
            "tlc2.TLC", "-workers", str(workers), "-metadir", meta, "-cleanup", "-noGenerateSpecTE",
            "-config", cfg_path, os.path.join(SPEC, module + ".tla")]


def parse_tlc_log(text):
    r = TlcResult()
    r.out = text
    m = re.search(r"(\d+) states generated, (\d+) distinct states found", text)
    if m:
        r.generated, r.distinct = int(m.group(1)), int(m.group(2))
    m = re.search(r"Invariant (\w+) is violated", text)
    if m:
        r.violated = m.group(1)
    if "Model checking completed. No error has been found" in text:
        r.rc = 0
    elif r.violated:
        r.rc = 12
    else:
        r.rc = 1
        em = re.search(r"Error: (.*?)(\n\n|\Z)", text, re.S)
        r.error = (em.group(1) if em else text[-1500:]).strip()
    return r


def gen_replay_shard(module, cfg_path, tag, rec_args, timeout=3000, workers=1):
    """Runs `tlc <module> | recorder <rec_args>`; returns (TlcResult, summary dict, obs path)."""
    base = os.path.join(OUT, "work", tag)
    os.makedirs(os.path.dirname(base), exist_ok=True)
    meta = base + ".meta"
    logp, obsp, sump = base + ".tlc.log", base + ".obs.ndjson", base + ".sum.json"
    env = dict(os.environ)
    env.pop("JAVA_TOOL_OPTIONS", None)
    env["VERIF_SEED"] = str(seed())
    t0 = time.time()
    tlc = subprocess.Popen(_tlc_cmd(module, cfg_path, meta, workers=workers), cwd=SPEC, env=env, stdout=subprocess.PIPE,
                           stderr=subprocess.STDOUT)
    with open(obsp, "wb") as fo:
        rec = subprocess.Popen([RECORDER] + rec_args + ["--tlc-log", logp, "--summary", sump], stdin=tlc.stdout,
                               stdout=fo, stderr=subprocess.PIPE, env=env)
        tlc.stdout.close()
        try:
            _, err = rec.communicate(timeout=timeout)
        except subprocess.TimeoutExpired:
            tlc.kill()
            rec.kill()
            raise ToolError(f"timeout in generator/recorder pipeline {tag}")
    tlc.wait()
    subprocess.run(["rm", "-rf", meta])
    if rec.returncode != 0:
        raise ToolError(f"recorder failed in {tag} (rc={rec.returncode}): {err.decode(errors='replace')[-1500:]}")
    res = parse_tlc_log(open(logp, errors="replace").read())
    res.wall = time.time() - t0
    summ = json.load(open(sump)) if os.path.exists(sump) else {}
    return res, summ, obsp


def merge_obs(paths, dest):
    """Concatenates shard observation files into one trace: table record first, cases renumbered."""
    n = 0
    table = None
    with open(dest, "w") as out:
        body = []
        for p in paths:
            for line in open(p):
                if line.startswith('{"table"') and '"text"' not in line[:40]:
                    if table is None:
                        table = line
                    continue
                body.append(line)
        out.write(table if table else '{"table":[]}\n')
        for line in body:
            n += 1
            # renumber "case" so that verdict lines can be matched back
            rec = json.loads(line)
            rec["case"] = n
            out.write(json.dumps(rec) + "\n")
    return n


def split_ndjson(path, chunk, header=False):
    """Splits an ndjson file into chunk-sized parts (each part repeats the first line if header)."""
    lines = open(path).read().splitlines(True)
    head, body = (lines[:1], lines[1:]) if header else ([], lines)
    parts = []
    for k in range(0, max(len(body), 1), chunk):
        p = f"{path}.part{k // chunk}"
        with open(p, "w") as f:
            f.writelines(head)
            f.writelines(body[k:k + chunk])
        parts.append(p)
    return parts


# TLC wraps long tuples over several lines: tolerate any whitespace between the elements
VERDICT_RE = re.compile(r'<<\s*"V",\s*(\d+),\s*"([^"]*)",\s*"([^"]*)",\s*"([^"]*)"\s*>>')


def judge_expr(trace_path, tag, timeout=1800, heap="6g", module="Judge_Expr"):
    """Runs a judge module over a trace; returns (TlcResult, {case: (class, verdict, entry)})."""
    cfg = os.path.join(SPEC, module + ".cfg")
    res = run_tlc(module, cfg, tag, workers=1, timeout=timeout, env_extra={"TRACE": trace_path}, heap=heap)
    tlc_or_die(res, f"{module} on {trace_path}")
    verdicts = {int(m.group(1)): (m.group(2), m.group(3), m.group(4)) for m in VERDICT_RE.finditer(res.out)}
    if res.post_failed:
        raise ToolError("judge did not consume every record")
    nrec = sum(1 for line in open(trace_path) if '"case"' in line)
    if len(verdicts) != nrec:
        raise ToolError(f"{module}: {nrec} records but {len(verdicts)} verdict lines parsed from the TLC output ({trace_path})")
    return res, verdicts


def split_and_judge(trace_path, tag, nrec, chunk=20000):
    """Judges a big trace in parallel chunks (each chunk gets the table record)."""
    if nrec <= chunk:
        return [judge_expr(trace_path, tag)]
    lines = open(trace_path).read().splitlines(True)
    table, body = lines[0], lines[1:]
    jobs = []
    for k in range(0, len(body), chunk):
        p = f"{trace_path}.part{k // chunk}"
        with open(p, "w") as f:
            f.write(table)
            f.writelines(body[k:k + chunk])
        jobs.append((lambda p=p, k=k: judge_expr(p, f"{tag}-{k // chunk}")))
    return parallel(jobs, 8)


def fuzz_replay(tag, fuzz_args, expr_args, timeout=1200, mode="expr"):
    """`recorder <fuzz_args> | recorder expr <expr_args>`; returns (summary, obs path with a leading table line)."""
    base = os.path.join(OUT, "work", tag)
    os.makedirs(os.path.dirname(base), exist_ok=True)
    obsp, sump = base + ".obs.ndjson", base + ".sum.json"
    env = dict(os.environ)
    env["VERIF_SEED"] = str(seed())
    with open(obsp, "wb") as fo:
        fo.write(b'{"table":[]}\n')
        fo.flush()
        gen = subprocess.Popen([RECORDER] + fuzz_args, stdout=subprocess.PIPE, env=env)
        rec = subprocess.Popen([RECORDER, mode] + expr_args + ["--summary", sump], stdin=gen.stdout, stdout=fo,
                               stderr=subprocess.PIPE, env=env)
        gen.stdout.close()
        try:
            _, err = rec.communicate(timeout=timeout)
        except subprocess.TimeoutExpired:
            gen.kill()
            rec.kill()
            raise ToolError(f"timeout in fuzz pipeline {tag}")
        gen.wait()
    if gen.returncode != 0:
        raise ToolError(f"input generator failed in {tag} (rc={gen.returncode}) - bug in the machinery")
    if rec.returncode != 0:
        # the recorder process itself died: the library aborted (stack overflow / abort), which is data
        return {"crashed": True, "rc": [gen.returncode, rec.returncode],
                "stderr": err.decode(errors="replace")[-800:]}, obsp
    return json.load(open(sump)), obsp
