"""Per-property checks.  Every verdict is computed by TLC from the TLA+ text; this file only orchestrates."""
import json
import os

import pipeline
import vlib
from vlib import OUT, SPEC, Verdict, log, parallel, write_cfg

REGISTRY = {}


def register(pid):
    def deco(f):
        REGISTRY[pid] = f
        return f
    return deco


def work(*parts):
    p = os.path.join(OUT, "work", *parts)
    os.makedirs(os.path.dirname(p), exist_ok=True)
    return p


# ------------------------------------------------------------------------------------------------
# direction A for expression cases: MC_Ref enumerates trees x renderings (and proves the reference
# lemmas on each), the recorder replays them, Judge_Expr decides everything that is not identical.
def mcref_replay(v, pid, runs, entries, nshards=16):
    """runs: list of dict(table, n, maxun, wc).  Returns (total cases, forwarded obs paths)."""
    jobs = []
    for r in runs:
        ns = 1 if r["n"] <= 1 else (nshards if r["n"] >= 3 else 4)
        for sh in range(ns):
            tag = f"{pid}/mcref-{r['table']}-n{r['n']}-u{r['maxun']}-s{sh}"
            cfg = work(tag + ".cfg")
            write_cfg(cfg, {"T": ("<-", r["table"]), "NLeaves": r["n"], "MaxUn": r["maxun"],
                            "WithConst": r.get("wc", True), "Shard": sh, "NShards": ns, "Emit": True,
                            "FullText": r["n"] <= 2},
                      invariants=["TokLemma", "OneLemma", "TextLemma", "EmitCases"])
            jobs.append(lambda tag=tag, cfg=cfg: (tag,) + pipeline.gen_replay_shard(
                "MC_Ref", cfg, tag, ["expr", "--entries", ",".join(entries)]))
    results = parallel(jobs)
    obs, ncases, nruns, nident = [], 0, 0, 0
    for tag, res, summ, obsp in results:
        if res.violated or res.error:
            # the reference semantics disagrees with itself: the machinery is broken, not exmex
            print(res.out[-3000:])
            raise vlib.ToolError(f"reference lemma failed in {tag}: {res.violated or res.error}")
        v.add_tlc(res, tag)
        ncases += summ.get("cases", 0)
        nruns += summ.get("runs", 0)
        nident += summ.get("identical", 0)
        obs.append((tag.split("/mcref-")[1].split("-")[0], obsp))
    return ncases, nruns, nident, obs


def judge_and_classify(v, pid, obs_paths, tag, what):
    """Merges forwarded observations, lets TLC judge them, files violations."""
    trace = work(pid, tag + ".trace.ndjson")
    n = pipeline.merge_obs(obs_paths, trace)
    if n == 0:
        return 0
    recs = {}
    for line in open(trace):
        r = json.loads(line)
        if "case" in r:
            recs[r["case"]] = r
    nbad = 0
    for res, verdicts in pipeline.split_and_judge(trace, f"{pid}-judge-{tag}", n):
        v.add_tlc(res, f"Judge_Expr[{tag}]")
        for case, (cls, verdict, entry) in verdicts.items():
            if verdict == "ok":
                continue
            nbad += 1
            r = recs.get(case, {})
            text = vlib.uncps(r.get("text", []))
            v.violation({"text": text, "class": cls, "entry": entry, "record": r},
                        f"{what}: text `{text}` ({cls}) entry {entry}: {verdict}")
    judged = sum(len(vd) for _, vd in [(0, {})])  # placeholder to keep flake quiet
    return nbad


def mc_shards(v, module, base_consts, invariants, nshards, tag, timeout=1500):
    """Exhaustive TLC run of an implementation-shaped model, sharded by root operator."""
    jobs = []
    for sh in range(nshards):
        cfg = work(tag, f"{module}-s{sh}.cfg")
        consts = dict(base_consts, Shard=sh, NShards=nshards)
        write_cfg(cfg, consts, invariants=invariants)
        jobs.append(lambda cfg=cfg, sh=sh: vlib.run_tlc(module, cfg, f"{tag}-{module}-{sh}", timeout=timeout, heap="2g"))
    tot = 0
    for sh, res in enumerate(parallel(jobs)):
        if not res.ok:
            print(res.out[-3000:])
            raise vlib.ToolError(f"model {module} ({tag}, shard {sh}) does not satisfy {res.violated or res.error}: "
                                 "the implementation-shaped model no longer refines the reference - spec bug")
        v.add_tlc(res, f"{module}[{tag} shard {sh}]")
        tot += res.distinct
    return tot


def expr_runs(tier):
    if tier == "quick":
        return [dict(table="T8", n=1, maxun=2), dict(table="T8", n=2, maxun=2), dict(table="T8", n=3, maxun=1),
                dict(table="T5", n=4, maxun=0, wc=False)]
    return [dict(table="T8", n=1, maxun=3), dict(table="T8", n=2, maxun=2), dict(table="T8", n=3, maxun=2),
            dict(table="T5", n=4, maxun=1, wc=False)]


def model_runs(tier):
    if tier == "quick":
        return [dict(table="T8", n=2, maxun=2, ns=4), dict(table="T8", n=3, maxun=1, ns=16),
                dict(table="T5", n=4, maxun=0, ns=12, wc=False)]
    return [dict(table="T8", n=2, maxun=2, ns=4), dict(table="T8", n=3, maxun=2, ns=16),
            dict(table="T5", n=4, maxun=1, ns=16, wc=False)]


def flat_model(v, pid, tier, invariants):
    n = 0
    for r in model_runs(tier):
        n += mc_shards(v, "MC_Flat", {"T": ("<-", r["table"]), "NLeaves": r["n"], "MaxUn": r["maxun"],
                                      "WithConst": r.get("wc", True), "BumpGuard": True},
                       invariants, r["ns"], f"{pid}/mcflat-{r['table']}-n{r['n']}")
    v.notes.append(f"MC_Flat: implementation-shaped model of make_expression/prioritized_indices_flat/eval_binary/"
                   f"compile refines the reference on {n} trees x 5 renderings (+ one redundant pair at every node)")


def expr_dir_a(v, pid, tier, entries, what):
    ncases, nruns, nident, obs = mcref_replay(v, pid, expr_runs(tier), entries)
    v.cov["traces_validated_against_impl"] += nruns
    v.cov["evaluations"] += nruns
    v.notes.append(f"direction A: {ncases} TLC-enumerated (tree, rendering) cases replayed through {entries}; "
                   f"{nident} runs identical to the TLC expectation, the rest judged by Judge_Expr")
    for tab in sorted({t for t, _ in obs}):
        judge_and_classify(v, pid, [p for t, p in obs if t == tab], f"dirA-{tab}", what)
    for _, p in obs[:3]:
        for line in open(p):
            if '"runs"' in line:
                r = json.loads(line)
                v.sample({"text": vlib.uncps(r["text"]), "runs": [(x["entry"], x["outcome"]) for x in r["runs"]]})
                break
    v.cov["rule"] = ("all trees with <= N leaves over the model table (see notes) x 5 renderings; distinct by "
                     "construction; every case has at least one operator or one unary/paren decoration")
    v.cov["distinct_nontrivial"] = ncases
    v.cov["exhaustive"] = True


@register("C01")
def c01(a):
    v = Verdict("C01", a.tier, "model_checking")
    flat_model(v, "C01", a.tier, ["Refines", "RefinesOne"])
    expr_dir_a(v, "C01", a.tier, ["flat", "flat_wo"], "evaluation differs from the documented semantics")
    v.assumptions += ["decided for the free term algebra; other data types are homomorphic images because the "
                      "generic code touches T only through Clone, Default, FromStr and the supplied fn pointers",
                      "tracker abstracted to an alive vector in FlatImpl (bit level: Tracker.tla, C14)"]
    return v.finish()


@register("C02")
def c02(a):
    v = Verdict("C02", a.tier, "model_checking")
    flat_model(v, "C02", a.tier, ["Refines", "Shrinks"])
    expr_dir_a(v, "C02", a.tier, ["flat", "flat_wo", "flat_re", "flat_wo_re", "deep"],
               "folded/unfolded/re-folded/deep expressions differ from the reference")
    return v.finish()
