"""Per-property checks.  Every verdict is computed by TLC from the TLA+ text; this file only orchestrates."""
import json
import os

import pipeline
import vlib
from vlib import OUT, SPEC, Verdict, log, parallel, write_cfg

REGISTRY = {}


def register(pid):
    def deco(f):
        REGISTRY[pid] = f
        return f
    return deco


def work(*parts):
    p = os.path.join(OUT, "work", *parts)
    os.makedirs(os.path.dirname(p), exist_ok=True)
    return p


# ------------------------------------------------------------------------------------------------
# direction A for expression cases: MC_Ref enumerates trees x renderings (and proves the reference
# lemmas on each), the recorder replays them, Judge_Expr decides everything that is not identical.
def mcref_replay(v, pid, runs, entries, nshards=16, sample_every=0):
    """runs: list of dict(table, n, maxun, wc).  Returns (total cases, forwarded obs paths)."""
    jobs = []
    for r in runs:
        ns = 1 if r["n"] <= 1 else (nshards if r["n"] >= 3 else 4)
        for sh in range(ns):
            tag = f"{pid}/mcref-{r['table']}-n{r['n']}-u{r['maxun']}-s{sh}"
            cfg = work(tag + ".cfg")
            write_cfg(cfg, {"T": ("<-", r["table"]), "NLeaves": r["n"], "MaxUn": r["maxun"],
                            "WithConst": r.get("wc", True), "Shard": sh, "NShards": ns, "Emit": True,
                            "FullText": r["n"] <= 2},
                      invariants=["TokLemma", "OneLemma", "TextLemma", "EmitCases"])
            jobs.append(lambda tag=tag, cfg=cfg: (tag,) + pipeline.gen_replay_shard(
                "MC_Ref", cfg, tag, ["expr", "--entries", ",".join(entries), "--sample-every", str(sample_every)]))
    results = parallel(jobs)
    obs, ncases, nruns, nident = [], 0, 0, 0
    for tag, res, summ, obsp in results:
        if res.violated or res.error:
            # the reference semantics disagrees with itself: the machinery is broken, not exmex
            print(res.out[-3000:])
            raise vlib.ToolError(f"reference lemma failed in {tag}: {res.violated or res.error}")
        v.add_tlc(res, tag)
        ncases += summ.get("cases", 0)
        nruns += summ.get("runs", 0)
        nident += summ.get("identical", 0)
        obs.append((tag.split("/mcref-")[1].split("-")[0], obsp))
    return ncases, nruns, nident, obs


F13_WHAT = ("a text in binary function style without parentheses (leading binary operator, binary operator after `(`, two operands "
            "side by side, `)(`) is accepted by the flat and the deep parser with different meanings")


def known_expr_finding(v, verdict):
    """Classification of expression verdicts that fall under an open known finding (computed by the judge)."""
    if "[F13:" in verdict and vlib.finding_open("F13"):
        v.known_finding("F13", F13_WHAT)
        return True
    return False


def judge_and_classify(v, pid, obs_paths, tag, what, classes=None):
    """Merges forwarded observations, lets TLC judge them, files violations."""
    trace = work(pid, tag + ".trace.ndjson")
    n = pipeline.merge_obs(obs_paths, trace)
    if n == 0:
        return 0
    recs = {}
    for line in open(trace):
        r = json.loads(line)
        if "case" in r:
            recs[r["case"]] = r
    nbad = 0
    for res, verdicts in pipeline.split_and_judge(trace, f"{pid}-judge-{tag}", n):
        v.add_tlc(res, f"Judge_Expr[{tag}]")
        for case, (cls, verdict, entry) in verdicts.items():
            if verdict == "ok" or (classes is not None and cls not in classes) or known_expr_finding(v, verdict):
                continue
            nbad += 1
            r = recs.get(case, {})
            text = vlib.uncps(r.get("text", []))
            v.violation({"text": text, "class": cls, "entry": entry, "record": r},
                        f"{what}: text `{text}` ({cls}) entry {entry}: {verdict}")
    judged = sum(len(vd) for _, vd in [(0, {})])  # placeholder to keep flake quiet
    return nbad


def mc_shards(v, module, base_consts, invariants, nshards, tag, timeout=1500):
    """Exhaustive TLC run of an implementation-shaped model, sharded by root operator."""
    jobs = []
    for sh in range(nshards):
        cfg = work(tag, f"{module}-s{sh}.cfg")
        consts = dict(base_consts, Shard=sh, NShards=nshards)
        write_cfg(cfg, consts, invariants=invariants)
        jobs.append(lambda cfg=cfg, sh=sh: vlib.run_tlc(module, cfg, f"{tag}-{module}-{sh}", timeout=timeout, heap="2g"))
    tot = 0
    for sh, res in enumerate(parallel(jobs)):
        if not res.ok:
            print(res.out[-3000:])
            raise vlib.ToolError(f"model {module} ({tag}, shard {sh}) does not satisfy {res.violated or res.error}: "
                                 "the implementation-shaped model no longer refines the reference - spec bug")
        v.add_tlc(res, f"{module}[{tag} shard {sh}]")
        tot += res.distinct
    return tot


def expr_runs(tier):
    if tier == "quick":
        return [dict(table="T8", n=1, maxun=2), dict(table="T8", n=2, maxun=2), dict(table="T8", n=3, maxun=1),
                dict(table="T5", n=4, maxun=0, wc=False)]
    return [dict(table="T8", n=1, maxun=3), dict(table="T8", n=2, maxun=2), dict(table="T8", n=3, maxun=2),
            dict(table="T5", n=4, maxun=1, wc=False), dict(table="T3", n=5, maxun=0, wc=False)]


def model_runs(tier):
    if tier == "quick":
        return [dict(table="T8", n=2, maxun=2, ns=4), dict(table="T8", n=3, maxun=1, ns=16),
                dict(table="T5", n=4, maxun=0, ns=12, wc=False)]
    return [dict(table="T8", n=2, maxun=2, ns=4), dict(table="T8", n=3, maxun=2, ns=16),
            dict(table="T5", n=4, maxun=1, ns=16, wc=False), dict(table="T3", n=5, maxun=0, ns=12, wc=False)]


def flat_model(v, pid, tier, invariants):
    """MC_Flat: refinement of the flat pipeline model + model conformance: the structures the models predict (flat nodes,
    unary attachment, priorities, prio_indices, deep nesting) are compared with the verif_dump hook of the real code.
    A difference is MODEL-DRIFT (reported, lowers what the refinement result says about the code), never a violation."""
    n = 0
    jobs = []
    for r in model_runs(tier):
        for sh in range(r["ns"]):
            tag = f"{pid}/mcflat-{r['table']}-n{r['n']}-s{sh}"
            cfg = work(tag + ".cfg")
            write_cfg(cfg, {"T": ("<-", r["table"]), "NLeaves": r["n"], "MaxUn": r["maxun"], "WithConst": r.get("wc", True),
                            "BumpGuard": True, "FoldRule": "local", "Shard": sh, "NShards": r["ns"], "Emit": True},
                      invariants=invariants + ["EmitModel"])
            jobs.append(lambda tag=tag, cfg=cfg: (tag,) + pipeline.gen_replay_shard("MC_Flat", cfg, tag, ["dump"]))
    cases = drift = 0
    for tag, res, summ, obsp in parallel(jobs):
        if res.violated or res.error:
            print(res.out[-3000:])
            raise vlib.ToolError(f"model MC_Flat ({tag}) does not satisfy {res.violated or res.error}: "
                                 "the implementation-shaped model no longer refines the reference - spec bug")
        v.add_tlc(res, f"MC_Flat[{tag}]")
        n += res.distinct
        cases += summ.get("cases", 0)
        if summ.get("drift", 0):
            drift += summ["drift"]
            first = open(obsp).readline()[:400]
            v.drift.append(f"{tag}: {summ['drift']} of {summ['cases']} structures differ from FlatImpl/DeepImpl, e.g. {first}")
    v.cov["model_conformance"] = {"structures_compared": cases, "drift": drift}
    v.notes.append(f"MC_Flat: implementation-shaped model of make_expression/prioritized_indices_flat/eval_binary/"
                   f"compile refines the reference on {n} trees x 5 renderings (+ one redundant pair at every node); model conformance: "
                   f"{cases} predicted structures (flat uncompiled, flat compiled, deep) compared with verif_dump, {drift} differ")


def expr_dir_a(v, pid, tier, entries, what, sample_every=0, runs=None):
    ncases, nruns, nident, obs = mcref_replay(v, pid, runs or expr_runs(tier), entries, sample_every=sample_every)
    v.cov["traces_validated_against_impl"] += nruns
    v.cov["evaluations"] += nruns
    v.notes.append(f"direction A: {ncases} TLC-enumerated (tree, rendering) cases replayed through {entries}; "
                   f"{nident} runs identical to the TLC expectation, the rest judged by Judge_Expr")
    for tab in sorted({t for t, _ in obs}):
        judge_and_classify(v, pid, [p for t, p in obs if t == tab], f"dirA-{tab}", what)
    for _, p in obs[:3]:
        for line in open(p):
            if '"runs"' in line:
                r = json.loads(line)
                v.sample({"text": vlib.uncps(r["text"]), "runs": [(x["entry"], x["outcome"]) for x in r["runs"]]})
                break
    v.cov["rule"] = ("all trees with <= N leaves over the model table (see notes) x 5 renderings; distinct by "
                     "construction; every case has at least one operator or one unary/paren decoration")
    v.cov["distinct_nontrivial"] = ncases
    v.cov["exhaustive"] = True


def expr_dir_b(v, pid, tier, entries, what, families=("mixed", "nested")):
    """Direction B: seeded random tables and big expressions, every record judged by TLC from its text."""
    nstreams = 8 if tier == "quick" else 16
    per = {"mixed": 24 if tier == "quick" else 150, "nested": 6 if tier == "quick" else 40, "calls": 700 if tier == "quick" else 12000,
           "chain": 20 if tier == "quick" else 40, "soup": 1500 if tier == "quick" else 20000, "mutant": 1500 if tier == "quick" else 20000}
    hi = 140 if tier == "quick" else 300
    jobs = []
    for fam in families:
        for k in range(nstreams):
            tag = f"{pid}/fuzz-{fam}-{k}"
            jobs.append(lambda tag=tag, fam=fam, k=k: (tag,) + pipeline.fuzz_replay(
                tag, ["fuzz-expr", "--family", fam, "--n", str(per[fam]), "--stream", str(k), "--max-operands", str(hi),
                      "--max-chain", "130" if tier == "quick" else "200"],
                ["--forward-all", "--entries", ",".join(entries)]))
    res = parallel(jobs)
    ncases = 0
    jj = []
    for tag, summ, obsp in res:
        if summ.get("crashed"):
            v.violation({"pipeline": tag, "detail": summ}, f"{what}: the library aborted the recorder process in {tag}")
            continue
        ncases += summ["cases"]
        v.cov["traces_validated_against_impl"] += summ["runs"]
        v.cov["evaluations"] += summ["runs"]
        jj.append((tag, obsp))
    # judge every stream (TLC recomputes lexing, parsing and the AC normal form from the recorded text)
    jres = parallel([(lambda t=t, p=p: (p, pipeline.judge_expr(p, t.replace("/", "-")))) for t, p in jj], 8)
    nbad = 0
    for p, (r, verdicts) in jres:
        v.add_tlc(r, f"Judge_Expr[{os.path.basename(p)}]")
        recs = None
        for case, (cls, verdict, entry) in verdicts.items():
            if verdict == "ok" or known_expr_finding(v, verdict):
                continue
            if recs is None:
                recs = {}
                for line in open(p):
                    q = json.loads(line)
                    if "case" in q:
                        recs[q["case"]] = q
            nbad += 1
            q = recs.get(case, {})
            text = vlib.uncps(q.get("text", []))
            v.violation({"text": text, "class": cls, "entry": entry, "record": q},
                        f"{what}: random text `{text[:200]}` ({cls}) entry {entry}: {verdict}")
    v.notes.append(f"direction B: {ncases} seeded random texts, families {list(families)} (big expressions up to {hi} operands, "
                   f"0-40 variables, nesting to 100, token soup, mutated texts; random tables with priority ties) "
                   f"through {entries}, every record judged by Judge_Expr")
    return ncases


@register("C01")
def c01(a):
    v = Verdict("C01", a.tier, "model_checking")
    flat_model(v, "C01", a.tier, ["Refines", "RefinesOne", "VioOk"])
    expr_dir_a(v, "C01", a.tier, ["flat", "flat_wo"], "evaluation differs from the documented semantics")
    expr_dir_b(v, "C01", a.tier, ["flat", "flat_wo"], "evaluation differs from the documented semantics")
    v.assumptions += ["decided for the free term algebra; other data types are homomorphic images because the "
                      "generic code touches T only through Clone, Default, FromStr and the supplied fn pointers",
                      "tracker abstracted to an alive vector in FlatImpl (bit level: Tracker.tla, C14)"]
    return v.finish()


@register("C02")
def c02(a):
    v = Verdict("C02", a.tier, "model_checking")
    flat_model(v, "C02", a.tier, ["Refines", "Shrinks"])
    deep_model(v, "C02", a.tier, ["DeepRefines"])
    ents = ["flat", "flat_wo", "flat_re", "flat_wo_re", "deep"]
    expr_dir_a(v, "C02", a.tier, ents, "folded/unfolded/re-folded/deep expressions differ from the reference")
    expr_dir_b(v, "C02", a.tier, ents, "folded/unfolded/re-folded/deep expressions differ from the reference",
               families=("mixed", "soup", "mutant"))
    return v.finish()


def deep_model(v, pid, tier, invariants):
    n = 0
    for r in model_runs(tier):
        n += mc_shards(v, "MC_Deep", {"T": ("<-", r["table"]), "NLeaves": r["n"], "MaxUn": r["maxun"],
                                      "WithConst": r.get("wc", True), "BumpGuard": True, "FoldRule": "local"},
                       invariants, r["ns"], f"{pid}/mcdeep-{r['table']}-n{r['n']}")
    v.notes.append(f"MC_Deep: implementation-shaped model of the deep parser, DeepEx::compile (lift_nodes, decline mask), "
                   f"flatten_vecs and flatex_to_deepex refines the reference on {n} trees x renderings ({invariants})")


@register("C03")
def c03(a):
    v = Verdict("C03", a.tier, "model_checking")
    deep_model(v, "C03", a.tier, ["DeepRefines", "FlattenRefines", "DeepenRefines"])
    ents = ["flat", "deep", "f2d", "fwo2d", "d2f", "f2d2f", "d2f2d"]
    what = "flat and deep forms are not interchangeable"
    expr_dir_a(v, "C03", a.tier, ents, what, sample_every=6)
    expr_dir_b(v, "C03", a.tier, ents, what, families=("mixed", "nested", "chain", "soup", "mutant"))
    v.notes.append("operator listings (sorted, duplicate-free, applied-to-variable subset, subset of the text, flat = deep "
                   "without constant sub-expressions) are judged on every forwarded record; direction A forwards a record "
                   "only if some value or variable list is not identical to the TLC expectation")
    return v.finish()


# ------------------------------------------------------------------------------------------------
def file_verdicts(v, obs_path, verdicts, what, kind="text", classes=None):
    """Turns non-ok judge verdicts into violations (loads the records lazily).
    classes: only verdicts on texts of these classes concern the property (None = all)."""
    recs = None
    n = 0
    for case, (cls, verdict, entry) in verdicts.items():
        if verdict == "ok" or (classes is not None and cls not in classes) or known_expr_finding(v, verdict):
            continue
        if recs is None:
            recs = {}
            for line in open(obs_path):
                q = json.loads(line)
                if "case" in q:
                    recs[q["case"]] = q
        q = recs.get(case, {})
        text = vlib.uncps(q.get("text", []))
        n += 1
        v.violation({"text": text, "class": cls, "entry": entry, "record": q}, f"{what}: `{text[:200]}` ({cls}) {entry}: {verdict}")
    return n


LEX_FAMILIES = [("TLog", "ALog", 5, 6), ("TCmp", "ACmp", 6, 7), ("TSin", "ASin", 4, 5), ("TBrace", "ABrace", 5, 6),
                ("TCall", "ACall", 5, 6), ("TPre", "APre", 5, 6)]


def lex_enumeration(v, pid, tier, families, what):
    """MC_Lex: every text up to a length over the family alphabet; TLC checks LexImpl == Lex (and the totality of the
    front-end model) while printing the abstract expectation of each text, which the real tokenizer replays."""
    ntexts = 0
    for tab, alpha, lq, lt in families:
        ml = lq if tier == "quick" else lt
        tag = f"{pid}/mclex-{tab}"
        cfg = work(tag + ".cfg")
        write_cfg(cfg, {"T": ("<-", tab), "Alphabet": ("<-", alpha), "MaxLen": ml, "Emit": True, "CallStack": True,
                        "BumpGuard": True}, invariants=["LexAgree", "CallAgree", "NoPanic", "EmitCases"])
        res, summ, obsp = pipeline.gen_replay_shard("MC_Lex", cfg, tag, ["lex"], workers=16, timeout=3000)
        if res.violated or res.error:
            print(res.out[-3000:])
            raise vlib.ToolError(f"MC_Lex({tab}): {res.violated or res.error}: tokenizer model and lexical rules disagree - spec bug")
        v.add_tlc(res, f"MC_Lex[{tab}, len<={ml}]")
        ntexts += summ["cases"]
        v.cov["traces_validated_against_impl"] += summ["cases"]
        v.cov["evaluations"] += summ["cases"]
        if summ["forwarded"]:
            r, verdicts = pipeline.judge_expr(obsp, f"{pid}-jlex-{tab}", module="Judge_Lex")
            v.add_tlc(r, f"Judge_Lex[{tab}]")
            file_verdicts(v, obsp, verdicts, what)
        if summ["st"].get("panic"):
            v.notes.append(f"{tab}: {summ['st']['panic']} tokenizer panics (judged above)")
    v.notes.append(f"direction A (lexical): {ntexts} TLC-enumerated texts replayed through the real tokenize_and_analyze "
                   f"(hook re-export); token streams identical to the abstract lexer's or judged by Judge_Lex")
    return ntexts


def lex_dir_b(v, pid, tier, what):
    n = 4000 if tier == "quick" else 60000
    jobs = []
    for fam in ("lex-float", "lex-val", "lex-rnd"):
        for mode, module in (("lex", "Judge_Lex"), ("expr", "Judge_Expr")):
            tag = f"{pid}/fuzz-{fam}-{mode}"
            args = ["--forward-all"] + (["--entries", "flat,deep"] if mode == "expr" else [])
            jobs.append(lambda tag=tag, fam=fam, mode=mode, module=module, args=args: (tag, module) + pipeline.fuzz_replay(
                tag, ["fuzz-expr", "--family", fam, "--n", str(n), "--stream", "3"], args, mode=mode))
    res = parallel(jobs)
    tot = 0
    jres = parallel([(lambda t=t, m=m, p=p: (p, pipeline.judge_expr(p, t.replace("/", "-"), module=m))) for t, m, s_, p in res
                     if not s_.get("crashed")], 6)
    for t, m, s_, p in res:
        if s_.get("crashed"):
            v.violation({"pipeline": t, "detail": s_}, f"{what}: the library aborted the recorder process in {t}")
        else:
            tot += s_["cases"]
            v.cov["traces_validated_against_impl"] += s_["cases"]
            v.cov["evaluations"] += s_["cases"]
    for p, (r, verdicts) in jres:
        v.add_tlc(r, f"Judge[{os.path.basename(p)}]")
        file_verdicts(v, p, verdicts, what)
    v.notes.append(f"direction B (lexical): {tot} seeded texts built by extending/truncating/concatenating the names of the real "
                   "float and value tables (mirrored from their make()) and of random tables, literal spellings, sign chains, "
                   "Greek; judged at token level (Judge_Lex) and at API level (variables + value, Judge_Expr)")


@register("C13")
def c13(a):
    v = Verdict("C13", a.tier, "model_checking")
    what = "tokenisation differs from the documented lexical rules"
    n = lex_enumeration(v, "C13", a.tier, LEX_FAMILIES[:4] + LEX_FAMILIES[5:], what)
    lex_dir_b(v, "C13", a.tier, what)
    v.cov["rule"] = "every text up to length L over each family alphabet (exhaustive, distinct by construction); non-trivial = non-empty"
    v.cov["distinct_nontrivial"] = n
    v.cov["exhaustive"] = True
    v.sample({"family": "TLog", "texts": ["log2(1", "lo g", "log10", "l-1."]})
    v.assumptions.append("byte offsets abstracted to code points in LexImpl; unterminated/empty braces and alphabetic binary names "
                         "glued to identifier characters are left unconstrained (not fixed by the documentation)")
    return v.finish()


def call_runs(tier):
    if tier == "quick":
        return [dict(table="T5c", n=2, maxun=1, ns=2), dict(table="T5c", n=3, maxun=1, ns=8), dict(table="T5c", n=4, maxun=0, ns=8)]
    return [dict(table="T5c", n=2, maxun=2, ns=2), dict(table="T5c", n=3, maxun=2, ns=8), dict(table="T5c", n=4, maxun=1, ns=16),
            dict(table="T8", n=3, maxun=0, ns=16)]


@register("C08")
def c08(a):
    v = Verdict("C08", a.tier, "model_checking")
    what = "call form op(a, b) does not mean ((a) op (b))"
    jobs = []
    for r in call_runs(a.tier):
        for sh in range(r["ns"]):
            tag = f"C08/mccall-{r['table']}-n{r['n']}-s{sh}"
            cfg = work(tag + ".cfg")
            write_cfg(cfg, {"T": ("<-", r["table"]), "NLeaves": r["n"], "MaxUn": r["maxun"], "WithConst": False, "Shard": sh,
                            "NShards": r["ns"], "Emit": True, "CallStack": True, "BumpGuard": True, "FoldRule": "local"},
                      invariants=["AbstractOk", "ImplOk", "EmitCases"])
            jobs.append(lambda tag=tag, cfg=cfg, r=r: (r["table"], tag) + pipeline.gen_replay_shard(
                "MC_Call", cfg, tag, ["expr", "--entries", "flat,flat_wo,deep,f2d"]))
    obs, ncases = [], 0
    for tab, tag, res, summ, obsp in parallel(jobs):
        if res.violated or res.error:
            print(res.out[-3000:])
            raise vlib.ToolError(f"MC_Call {tag}: {res.violated or res.error}: call-form model does not refine the desugaring - spec bug")
        v.add_tlc(res, tag)
        ncases += summ["cases"]
        v.cov["traces_validated_against_impl"] += summ["runs"]
        v.cov["evaluations"] += summ["runs"]
        obs.append((tab, obsp))
    for tab in sorted({t for t, _ in obs}):
        judge_and_classify(v, "C08", [p for t, p in obs if t == tab], f"dirA-{tab}", what)
    lex_enumeration(v, "C08", a.tier, LEX_FAMILIES[4:5], what)
    expr_dir_b(v, "C08", a.tier, ["flat", "flat_wo", "deep"], what, families=("calls", "nested"))
    v.notes.append(f"direction A: {ncases} (tree, non-empty subset of binary operators in call form, extra parentheses) cases; "
                   "MC_Call proves the abstract desugaring inverts the rendering and that the tokenizer model with a stack of "
                   "pending calls produces exactly the desugared tokens")
    v.cov["rule"] = "all trees <= N leaves over T5c x all non-empty subsets of binary nodes in call form x 2-3 paren wrappings"
    v.cov["distinct_nontrivial"] = ncases
    v.cov["exhaustive"] = True
    v.sample({"text": "f(1,g(2,x3))", "table": "T5c"})
    return v.finish()


def dmg_runs(tier):
    if tier == "quick":
        return [dict(table="T8", n=1, maxun=2, ns=1), dict(table="T8", n=2, maxun=1, ns=8), dict(table="T5", n=3, maxun=0, ns=8, wc=False)]
    return [dict(table="T8", n=1, maxun=3, ns=1), dict(table="T8", n=2, maxun=2, ns=16), dict(table="T5", n=3, maxun=1, ns=16, wc=False),
            dict(table="T3", n=4, maxun=0, ns=12, wc=False)]


@register("C07")
def c07(a):
    v = Verdict("C07", a.tier, "model_checking")
    what = "a malformed expression was accepted"
    ents = ["flat", "flat_wo", "deep"]
    jobs = []
    for r in dmg_runs(a.tier):
        for sh in range(r["ns"]):
            tag = f"C07/mcdmg-{r['table']}-n{r['n']}-s{sh}"
            cfg = work(tag + ".cfg")
            write_cfg(cfg, {"T": ("<-", r["table"]), "NLeaves": r["n"], "MaxUn": r["maxun"], "WithConst": r.get("wc", True),
                            "Shard": sh, "NShards": r["ns"], "Emit": True, "CallStack": True, "BumpGuard": True, "FoldRule": "local"},
                      invariants=["SpecMust", "ModelRejects", "EmitCases"])
            jobs.append(lambda tag=tag, cfg=cfg, r=r: (r["table"], tag) + pipeline.gen_replay_shard(
                "MC_Dmg", cfg, tag, ["expr", "--entries", ",".join(ents)]))
    obs, ncases, kinds = [], 0, {}
    for tab, tag, res, summ, obsp in parallel(jobs):
        if res.violated or res.error:
            print(res.out[-3000:])
            raise vlib.ToolError(f"MC_Dmg {tag}: {res.violated or res.error}: damage classes / front-end model inconsistent - spec bug")
        v.add_tlc(res, tag)
        ncases += summ["cases"]
        v.cov["traces_validated_against_impl"] += summ["runs"]
        v.cov["evaluations"] += summ["runs"]
        obs.append((tab, obsp))
    for tab in sorted({t for t, _ in obs}):
        judge_and_classify(v, "C07", [p for t, p in obs if t == tab], f"dirA-{tab}", what, classes={"must"})
    v.notes.append(f"direction A: {ncases} damaged texts (delete/insert one parenthesis at every position, append every binary operator, "
                   f"extra operand beside every operand, illegal character at every position, blank texts) of every rendering "
                   f"(minimal, fully parenthesised, call form) replayed through {ents}; expected outcome err")
    # direction B: the same damages on random expressions over random tables and over the real float / value tables
    n = 1500 if a.tier == "quick" else 20000
    jobs = []
    for fam, e in (("dmg-float", "parse_f64,parse_wo_f64,deep_f64,eval_str_f64,stmt,flat,deep"),
                   ("dmg-val", "parse_val,stmt_val,flat,deep"), ("mutant", "flat,flat_wo,deep")):
        for k in range(4):
            tag = f"C07/fuzz-{fam}-{k}"
            jobs.append(lambda tag=tag, fam=fam, e=e, k=k: (tag,) + pipeline.fuzz_replay(
                tag, ["fuzz-expr", "--family", fam, "--n", str(n), "--stream", str(k)], ["--forward-all", "--entries", e]))
    res = parallel(jobs)
    good = []
    for tag, summ, obsp in res:
        if summ.get("crashed"):
            v.violation({"pipeline": tag, "detail": summ}, f"{what}: the library aborted the recorder process in {tag}")
        else:
            good.append((tag, obsp))
            v.cov["traces_validated_against_impl"] += summ["runs"]
            v.cov["evaluations"] += summ["runs"]
    for p, (r, verdicts) in parallel([(lambda t=t, p=p: (p, pipeline.judge_expr(p, t.replace("/", "-")))) for t, p in good], 8):
        v.add_tlc(r, f"Judge_Expr[{os.path.basename(p)}]")
        file_verdicts(v, p, verdicts, what, classes={"must"})
        nmust = sum(1 for c in verdicts.values() if c[0] == "must")
        v.cov["must_reject_texts_judged"] = v.cov.get("must_reject_texts_judged", 0) + nmust
    v.notes.append("direction B: damaged random expressions over the real float and value tables through parse, parse_wo_compile, "
                   "DeepEx::parse, eval_str, parse_val and the statement parsers; which texts must be rejected is decided by "
                   "Grammar.Classify on the recorded text with the table mirrored from the implementation's make()")
    v.cov["rule"] = "every single-point damage of every rendering of every tree in the bound; distinct by construction"
    v.cov["distinct_nontrivial"] = ncases
    v.cov["exhaustive"] = True
    v.sample({"text": "x1 | ( 2", "dmg": "paren_deleted"})
    return v.finish()


@register("C14")
def c14(a):
    v = Verdict("C14", a.tier, "model_checking")
    what = "operand tracking"
    q = a.tier == "quick"
    # (1) bit-level tracker model vs alive-vector meaning, all reachable states = all schedules
    trk = [dict(W=4, NW=5, N=17 if not q else 13, SingleWord=False), dict(W=3, NW=5, N=13 if not q else 12, SingleWord=False),
           dict(W=4, NW=5, N=16, SingleWord=False), dict(W=4, NW=3, N=8, SingleWord=False),
           dict(W=12 if not q else 10, NW=1, N=12 if not q else 10, SingleWord=True), dict(W=4, NW=1, N=4, SingleWord=True)]
    if not q:
        trk.append(dict(W=5, NW=4, N=18, SingleWord=False))
    jobs = []
    for c in trk:
        c["NW"] = 1 if c["SingleWord"] else 1 + c["N"] // c["W"]
    for k, c in enumerate(trk):
        cfg = work("C14", f"tracker-{k}.cfg")
        write_cfg(cfg, c, invariants=["Agree", "BitsMeanDead", "Final"])
        jobs.append(lambda cfg=cfg, k=k: vlib.run_tlc("Tracker", cfg, f"C14-tracker-{k}", workers=4, timeout=1500, heap="3g"))
    for c, res in zip(trk, parallel(jobs, 4)):
        if not res.ok:
            print(res.out[-3000:])
            raise vlib.ToolError(f"Tracker model {c}: {res.violated or res.error} - spec bug")
        v.add_tlc(res, f"Tracker[W={c['W']},NW={c['NW']},N={c['N']},single={c['SingleWord']}]")
    v.notes.append("Tracker.tla: bit-level usize/[usize] tracker (rotate, leading/trailing ones, carry across words, allocation rule "
                   "1 + n/W) equals the alive-vector meaning in every reachable state (= every schedule) for the word sizes listed")
    # (2) all application orders: models + real trackers at the word boundaries + public API
    nops_sched = 7 if q else 8
    tag = "C14/mcsched"
    cfg = work(tag + ".cfg")
    write_cfg(cfg, {"NOps": nops_sched, "Bases": ("=", "{0, 55, 58, 62, 120, 125}"), "Emit": True}, invariants=["ConsumedOnce", "EmitCases"])
    res, summ, obsp = pipeline.gen_replay_shard("MC_Sched", cfg, tag, ["tracker"], workers=16)
    if res.violated or res.error:
        print(res.out[-3000:])
        raise vlib.ToolError(f"MC_Sched: {res.violated or res.error} - spec bug")
    v.add_tlc(res, f"MC_Sched[{nops_sched} operators]")
    v.cov["traces_validated_against_impl"] += summ["runs"]
    v.cov["evaluations"] += summ["runs"]
    if summ["forwarded"]:
        r, verdicts = pipeline.judge_expr(obsp, "C14-jsched", module="Judge_Sched")
        v.add_tlc(r, "Judge_Sched")
        recs = {}
        for line in open(obsp):
            qq = json.loads(line)
            recs[qq["case"]] = qq
        for case, (cls, verdict, entry) in verdicts.items():
            if verdict != "ok":
                v.violation({"record": recs.get(case)}, f"{what}: real {cls} tracker at base {recs.get(case, {}).get('base')} order "
                            f"{recs.get(case, {}).get('order')}: {verdict}")
    v.notes.append(f"direction A (tracker hook): {summ['cases']} (order, base) cases = all {nops_sched}! application orders at 6 offsets "
                   f"around the 63|64 and 127|128 boundaries on the real usize and [usize] trackers ({summ['runs']} runs)")
    # long random / block-structured schedules on the real trackers (beyond what n! enumeration reaches)
    gen = work("C14", "fuzzsched.cases.ndjson")
    pg = vlib.run_recorder(["fuzz-sched", "--n", "400" if q else "6000"])
    if pg.returncode != 0:
        raise vlib.ToolError("fuzz-sched generator failed")
    open(gen, "wb").write(pg.stdout)
    fo = work("C14", "fuzzsched.obs.ndjson")
    pr = vlib.run_recorder(["tracker", "--forward-all", "--summary", fo + ".sum"], stdin_path=gen, stdout_path=fo)
    if pr.returncode != 0:
        v.violation({"pipeline": "fuzz-sched"}, f"{what}: the real tracker aborted the recorder process on a long schedule")
    else:
        s2 = json.load(open(fo + ".sum"))
        v.cov["traces_validated_against_impl"] += s2["runs"]
        v.cov["evaluations"] += s2["runs"]
        for pp in pipeline.split_ndjson(fo, 150):
            # renumber cases per part
            lines = [json.loads(l) for l in open(pp)]
            for k2, l2 in enumerate(lines):
                l2["case"] = k2 + 1
            with open(pp, "w") as f2:
                for l2 in lines:
                    f2.write(json.dumps(l2) + "\n")
        parts = [p2 for p2 in sorted(os.listdir(os.path.dirname(fo))) if p2.startswith("fuzzsched.obs.ndjson.part")]
        for pp, (r2, verdicts) in parallel([(lambda pp=pp: (pp, pipeline.judge_expr(os.path.join(os.path.dirname(fo), pp), f"C14-jfs-{pp}", module="Judge_Sched"))) for pp in parts], 8):
            v.add_tlc(r2, f"Judge_Sched[{pp}]")
            recs = None
            for case, (cls, verdict, entry) in verdicts.items():
                if verdict != "ok":
                    if recs is None:
                        recs = {json.loads(l)["case"]: json.loads(l) for l in open(os.path.join(os.path.dirname(fo), pp))}
                    rr = recs.get(case, {})
                    v.violation({"record": {kk: vv for kk, vv in rr.items() if kk != "steps"}},
                                f"{what}: real {cls} tracker, {rr.get('n')} operands, order {str(rr.get('order'))[:120]}...: {verdict}")
        v.notes.append(f"direction B (tracker hook): {s2['cases']} schedules of 9..200 operands (random permutations, boundary-first, shuffled "
                       "blocks, reversed with swaps, even-then-odd) on the real usize / [usize] trackers, judged by Judge_Sched")
    nops_chain = 7 if q else 8
    tag = "C14/mcchain"
    cfg = work(tag + ".cfg")
    write_cfg(cfg, {"NOps": nops_chain, "Emit": True, "BumpGuard": True, "FoldRule": "local"}, invariants=["ModelsAgree", "EmitCases"])
    ents = ["flat", "flat_wo", "deep", "f2d", "d2f"]
    res, summ, obsp = pipeline.gen_replay_shard("MC_Chain", cfg, tag, ["expr", "--entries", ",".join(ents)], workers=16)
    if res.violated or res.error:
        print(res.out[-3000:])
        raise vlib.ToolError(f"MC_Chain: {res.violated or res.error} - spec bug")
    v.add_tlc(res, f"MC_Chain[{nops_chain} operators]")
    v.cov["traces_validated_against_impl"] += summ["runs"]
    v.cov["evaluations"] += summ["runs"]
    judge_and_classify(v, "C14", [obsp], "dirA-chain", what)
    v.notes.append(f"direction A (public API): {summ['cases']} chains = all {nops_chain}! placements of operators with distinct priorities "
                   f"({nops_chain + 1} operands) through {ents}; FlatImpl/DeepImpl give exactly the reference tree for each (ModelsAgree)")
    # (3) long chains across the word boundaries through the public API
    n = 114 if q else 570
    jobs = []
    for k in range(12):
        tag = f"C14/fuzz-chain-{k}"
        jobs.append(lambda tag=tag, k=k: (tag,) + pipeline.fuzz_replay(
            tag, ["fuzz-expr", "--family", "chain", "--n", str(n // 12 + 1), "--stream", str(k)],
            ["--forward-all", "--entries", "flat,flat_wo,deep,f2d,d2f"]))
    good = []
    for tag, summ, obsp in parallel(jobs):
        if summ.get("crashed"):
            v.violation({"pipeline": tag, "detail": summ}, f"{what}: the library aborted the recorder process in {tag}")
        else:
            good.append((tag, obsp))
            v.cov["traces_validated_against_impl"] += summ["runs"]
            v.cov["evaluations"] += summ["runs"]
    for p, (r, verdicts) in parallel([(lambda t=t, p=p: (p, pipeline.judge_expr(p, t.replace("/", "-")))) for t, p in good], 12):
        v.add_tlc(r, f"Judge_Expr[{os.path.basename(p)}]")
        file_verdicts(v, p, verdicts, what)
    v.notes.append("direction B: chains of 9..250 operands (sizes 31-33, 63-66, 127-130, 191-194, 249, 250; TLC's JSON reader nests at most 255 deep) with ascending, descending, "
                   "alternating, inside-out, random and strided priority patterns (up to 90 priority levels, ties beyond), judged from the text")
    # (4) very long levels (beyond what TLC's JSON reader can take as a tree): flat and deep evaluation of the same text over f64
    # must both succeed and agree bit for bit; one process per case, judged by TLC (Judge_Threads, rule of `feval`)
    sizes = [65, 129, 1025, 2047, 2048, 2049, 2050, 3000] + ([] if q else [4097, 6000])
    def one_big(c):
        nn, op = c
        p = vlib.run_recorder(["longchain", "--n", str(nn), "--op", op, "--act", "agree"], timeout=600)
        out = p.stdout.decode().strip()
        return c, p.returncode, (json.loads(out) if out else None)
    big = parallel([(lambda c=c: one_big(c)) for c in [(nn, op) for nn in sizes for op in ("mix", "-")]], 8)
    tr = work("C14", "bigchains.ndjson")
    with open(tr, "w") as f:
        f.write(json.dumps({"table": []}) + "\n")
        k = 0
        for (nn, op), rc, rec in big:
            v.cov["traces_validated_against_impl"] += 1
            v.cov["evaluations"] += 2
            if rec is None or rec.get("outcome") != "ok" or "flat" not in rec:
                v.violation({"longchain": {"n": nn, "op": op, "act": "agree", "rc": rc, "record": rec}},
                            f"{what}: a level of {nn} operands (`x0{'*' if op == 'mix' else op}x1{'-' if op == 'mix' else op}...`) could not be evaluated in "
                            f"the flat and the deep form: {'aborted' if rec is None else rec.get('outcome')} (rc={rc})")
                continue
            for half in (0, 2):
                k += 1
                f.write(json.dumps({"case": k, "tid": nn, "act": "feval", "hi": rec["deep"][half], "lo": rec["deep"][half + 1],
                                    "seq_hi": rec["flat"][half], "seq_lo": rec["flat"][half + 1], "n": nn, "op": op}) + "\n")
    if k:
        r, verdicts = pipeline.judge_expr(tr, "C14-j-bigchains", module="Judge_Threads")
        v.add_tlc(r, "Judge_Threads[bigchains]")
        for case, (cls, verdict, act) in verdicts.items():
            if verdict != "ok":
                v.violation({"case": case}, f"{what}: flat and deep evaluation of a very long level differ ({verdict})")
    v.notes.append(f"very long levels: {len(big)} texts of {sizes} operands (alternating priorities / one operator) evaluated in the flat and the "
                   "deep form over f64, one process each; both must succeed and agree bit for bit")
    v.cov["rule"] = "all permutations of application order for <= 8/9 operands (exhaustive) + structured/random orders for long chains"
    v.cov["distinct_nontrivial"] = summ.get("cases", 0)
    v.cov["exhaustive"] = True
    v.sample({"order": [3, 0, 2, 1], "base": 62, "kind": "slice"})
    v.assumptions.append("the code adds the literal 64 per all-ones word; the model adds W (equal where usize::BITS = 64)")
    return v.finish()


def simple_judged(v, tag, obsp, module, what):
    r, verdicts = pipeline.judge_expr(obsp, tag.replace("/", "-"), module=module)
    v.add_tlc(r, f"{module}[{os.path.basename(obsp)}]")
    return file_verdicts(v, obsp, verdicts, what)


@register("C15")
def c15(a):
    v = Verdict("C15", a.tier, "model_checking")
    what = "consuming evaluation differs from borrowing evaluation"
    q = a.tier == "quick"
    tag = "C15/mcconsume"
    cfg = work(tag + ".cfg")
    write_cfg(cfg, {"MaxNodes": 6 if q else 7, "Emit": True, "BumpGuard": True}, invariants=["ScanOk", "EmitCases"])
    res, summ, obsp = pipeline.gen_replay_shard("MC_Consume", cfg, tag, ["consume"], workers=16)
    if res.violated or res.error:
        print(res.out[-3000:])
        raise vlib.ToolError(f"MC_Consume: {res.violated or res.error} - spec bug")
    v.add_tlc(res, "MC_Consume")
    v.cov["traces_validated_against_impl"] += summ["runs"]
    v.cov["evaluations"] += summ["runs"]
    simple_judged(v, "C15/jconsume", obsp, "Judge_Consume", what)
    v.notes.append(f"direction A: {summ['cases']} cases = occurrence patterns (3 variables + literals over <= {6 if q else 7} operands, every "
                   "interleaving) x every subset of the absent variables listed without occurring (built as `e + g*0` through the deep form) x {unfolded, folded} through eval / eval_vec / eval_iter with a clone-counting data type; the scan model "
                   "FlatImpl.Consume never reads a moved-out slot and moves exactly the last occurrence (ScanOk)")
    n = 60 if q else 600
    jobs = []
    for k in range(6):
        t2 = f"C15/fuzz-mixed-{k}"
        jobs.append(lambda t2=t2, k=k: (t2,) + pipeline.fuzz_replay(
            t2, ["fuzz-expr", "--family", "mixed", "--n", str(n // 6), "--stream", str(k), "--max-operands", "60"],
            ["--forward-all", "--ghosts"], mode="consume"))
    # one variable occurring up to 300 times (occurrence counters: 255 | 256 | 257)
    for k in range(1 if q else 4):
        t2 = f"C15/fuzz-repeat-{k}"
        jobs.append(lambda t2=t2, k=k: (t2,) + pipeline.fuzz_replay(
            t2, ["fuzz-expr", "--family", "repeat", "--n", "12", "--stream", str(k)], ["--forward-all"], mode="consume"))
    good = []
    for t2, s2, p2 in parallel(jobs):
        if s2.get("crashed"):
            v.violation({"pipeline": t2, "detail": s2}, f"{what}: the library aborted the recorder process in {t2}")
        else:
            good.append((t2, p2))
            v.cov["traces_validated_against_impl"] += s2["runs"]
            v.cov["evaluations"] += s2["runs"]
    parallel([(lambda t2=t2, p2=p2: simple_judged(v, t2, p2, "Judge_Consume", what)) for t2, p2 in good], 6)
    v.notes.append("direction B: random expressions up to 60 operands / 40 variables with repeated occurrences, folded and unfolded, "
                   "each also with one or two listed-but-absent variables (sorting first / last); one variable occurring 2..300 times "
                   "(254, 255, 256, 257, 258 among them)")
    v.cov["rule"] = "all sequences over {literal, a, b, c} of length <= L (exhaustive); non-trivial = at least one variable"
    v.cov["distinct_nontrivial"] = summ["cases"]
    v.cov["exhaustive"] = True
    v.sample({"text": "a + b * a + 4 * c", "clones": [1, 0, 0]})
    v.assumptions.append("all data types: decided for the clone-counting free algebra; the scan touches T only through Clone and mem::take")
    return v.finish()


@register("C04")
def c04(a):
    v = Verdict("C04", a.tier, "model_checking")
    what = "variables are not found/ordered/bound as documented"
    q = a.tier == "quick"
    tag = "C04/mcvars"
    cfg = work(tag + ".cfg")
    write_cfg(cfg, {"MaxNames": 3 if q else 4, "Emit": True}, invariants=["SpecOk", "EmitCases"])
    res, summ, obsp = pipeline.gen_replay_shard("MC_Vars", cfg, tag, ["vars", "--extra", "2", "--ghost-every", "1" if a.tier == "quick" else "12"], workers=16)
    if res.violated or res.error:
        print(res.out[-3000:])
        raise vlib.ToolError(f"MC_Vars: {res.violated or res.error} - spec bug")
    v.add_tlc(res, "MC_Vars")
    v.cov["traces_validated_against_impl"] += summ["runs"]
    v.cov["evaluations"] += summ["runs"]
    if summ["forwarded"]:
        simple_judged(v, "C04/jvars", obsp, "Judge_Vars", what)
    v.notes.append(f"direction A: {summ['cases']} texts over a 13-name pool (order-stressing ASCII/Greek names, names that only exist in "
                   f"braces, bare and braced spellings, repetition) x 5 forms (flat, uncompiled, deep, flat-from-deep, deep-from-flat) x "
                   f"eval/eval_relaxed/eval_vec/eval_iter x every slice length 0..n+2 = {summ['runs']} evaluations")
    n = 48 if q else 480
    jobs = []
    for k in range(8):
        t2 = f"C04/fuzz-mixed-{k}"
        jobs.append(lambda t2=t2, k=k: (t2,) + pipeline.fuzz_replay(
            t2, ["fuzz-expr", "--family", "mixed", "--n", str(n // 8), "--stream", str(10 + k), "--max-operands", "70"],
            ["--forward-all", "--extra", "2"], mode="vars"))
    good = []
    for t2, s2, p2 in parallel(jobs):
        if s2.get("crashed"):
            v.violation({"pipeline": t2, "detail": s2}, f"{what}: the library aborted the recorder process in {t2}")
        else:
            good.append((t2, p2))
            v.cov["traces_validated_against_impl"] += s2["runs"]
            v.cov["evaluations"] += s2["runs"]
    parallel([(lambda t2=t2, p2=p2: simple_judged(v, t2, p2, "Judge_Vars", what)) for t2, p2 in good], 8)
    v.notes.append("direction B: random expressions with 0..40 variables (beyond the 16 inline slots), names incl. Greek and arbitrary "
                   "brace contents (blanks, digits, emoji, operator look-alikes, commas), 1..many occurrences; all slice lengths")
    v.notes.append("derived expressions (sorted union after operator application / substitution, derivative keeps the list) are judged "
                   "by the calculus checks C09, C10, C11 on every recorded step")
    v.cov["rule"] = "all name sequences up to length L over the pool x bare/braced; non-trivial = at least one variable"
    v.cov["distinct_nontrivial"] = summ["cases"]
    v.cov["exhaustive"] = True
    v.sample({"text": "{ a} + B * a1 + {a}", "vars": [" a", "B", "a", "a1"]})
    # derived variable lists: operator application / substitution / conversion on expressions with up to ~40 variables (merged
    # lists beyond the inline capacity of 16), judged by the session specification
    calc_pipeline(v, "C04", a.tier, [], 0, ["manyvars", "dvars"], {"seed", "op_bin", "op_un", "std", "subs", "to_deep", "to_flat"},
                  "variables are not found/ordered/bound as documented", 160 if a.tier == "quick" else 2400)
    return v.finish()


def val_pipeline(v, pid, tier):
    """Value-type grid (C16/C17): MC_Val enumerates operators x catalogue x widths with ValSem's requirement,
    the recorder applies the real operators (direct / through variables / through folded literals), Judge_Val decides.
    Returns list of (src, verdict, via, record)."""
    q = tier == "quick"
    out = []
    runs = [dict(widths="{8, 16}", lemma=7 if q else 8, tag="a"), dict(widths="{32}", lemma=0, tag="b"), dict(widths="{64}", lemma=0, tag="c")]
    jobs = []
    for r in runs:
        tag = f"{pid}/mcval-{r['tag']}"
        cfg = work(tag + ".cfg")
        write_cfg(cfg, {"Widths": ("=", r["widths"]), "LemmaW": r["lemma"], "Emit": True}, invariants=["ReqTotal", "ArithLemma", "EmitCases"])
        jobs.append(lambda tag=tag, cfg=cfg: (tag,) + pipeline.gen_replay_shard("MC_Val", cfg, tag, ["valgrid"], workers=5))
    obs = []
    for tag, res, summ, obsp in parallel(jobs, 3):
        if res.violated or res.error:
            print(res.out[-3000:])
            raise vlib.ToolError(f"MC_Val {tag}: {res.violated or res.error} - ValSem inconsistent (spec bug)")
        v.add_tlc(res, tag)
        v.cov["traces_validated_against_impl"] += summ["runs"]
        v.cov["evaluations"] += summ["runs"]
        obs.append(obsp)
    # direction B: random operands
    n = 6000 if q else 100000
    gen = work(pid, "fuzzval.cases.ndjson")
    with open(gen, "wb") as f:
        p = vlib.run_recorder(["fuzz-val", "--n", str(n)], stdout_path=None)
        if p.returncode != 0:
            raise vlib.ToolError("fuzz-val generator failed")
        f.write(p.stdout)
    fo = work(pid, "fuzzval.obs.ndjson")
    p = vlib.run_recorder(["valgrid", "--summary", fo + ".sum"], stdin_path=gen, stdout_path=fo)
    if p.returncode != 0:
        v.violation({"pipeline": "fuzz-val"}, "value operators: the library aborted the recorder process on random operands")
    else:
        summ = json.load(open(fo + ".sum"))
        v.cov["traces_validated_against_impl"] += summ["runs"]
        v.cov["evaluations"] += summ["runs"]
        obs.append(fo)
    parts = []
    for o in obs:
        parts += pipeline.split_ndjson(o, 12000)
    jres = parallel([(lambda p=p: (p, pipeline.judge_expr(p, f"{pid}-jval-{os.path.basename(p)}", module="Judge_Val"))) for p in parts], 10)
    for p, (r, verdicts) in jres:
        v.add_tlc(r, f"Judge_Val[{os.path.basename(p)}]")
        recs = None
        for case, (src, verdict, via) in verdicts.items():
            if verdict == "ok":
                continue
            if recs is None:
                recs = {}
                for line in open(p):
                    qq = json.loads(line)
                    recs[qq["case"]] = qq
            out.append((src, verdict, via, recs.get(case)))
    v.notes.append("MC_Val: ArithLemma (overflow-free checked arithmetic, bit operations and shifts of ValSem = plain mathematics on all "
                   "pairs of a 7/8-bit width), ReqTotal; grid = 27 binary x 39^2 + 35 unary x 39 catalogue values per width 8/16/32 "
                   "(+ a width-64 catalogue of named wide integers) + random operands; three routes per case: direct fn pointer, "
                   "variables of parse_val, literals folded at parse time")
    return out


def describe_val(rec):
    def d(x):
        if x is None:
            return "-"
        k = x.get("k")
        if k == "int":
            return f"Int({x.get('name') or x['v']})"
        if k == "float":
            return f"Float({x.get('name') or (x['q'] / 4 if x.get('x') else x['c'])})"
        if k == "bool":
            return f"Bool({x['v']})"
        if k == "array":
            return "Array[%d]" % len(x["v"])
        return k
    if not rec:
        return "?"
    return f"w={rec['w']} {rec['op']}({d(rec.get('a'))}{', ' + d(rec.get('b')) if rec.get('ar') == 2 else ''}) -> " + \
           ", ".join(f"{k}:{d(vv)}" for k, vv in rec["res"].items())


def mirror_fuzz(v, pid, tier, fams, what):
    n = 1500 if tier == "quick" else 20000
    jobs = []
    for fam in fams:
        for k in range(3):
            tag = f"{pid}/fuzz-{fam}-{k}"
            jobs.append(lambda tag=tag, fam=fam, k=k: (tag,) + pipeline.fuzz_replay(
                tag, ["fuzz-expr", "--family", fam, "--n", str(n), "--stream", str(k)], ["--forward-all", "--entries", "flat,flat_wo,deep"]))
    good = []
    for tag, summ, obsp in parallel(jobs):
        if summ.get("crashed"):
            v.violation({"pipeline": tag, "detail": summ}, f"{what}: the library aborted the recorder process in {tag}")
        else:
            good.append((tag, obsp))
            v.cov["traces_validated_against_impl"] += summ["runs"]
            v.cov["evaluations"] += summ["runs"]
    for p, (r, verdicts) in parallel([(lambda t=t, p=p: (p, pipeline.judge_expr(p, t.replace("/", "-")))) for t, p in good], 6):
        v.add_tlc(r, f"Judge_Expr[{os.path.basename(p)}]")
        file_verdicts(v, p, verdicts, what, classes={"wf"})


@register("C16")
def c16(a):
    v = Verdict("C16", a.tier, "model_checking")
    bad = val_pipeline(v, "C16", a.tier)
    for src, verdict, via, rec in bad:
        if src == "C16" and verdict != "bad:panic":
            v.violation({"record": rec}, f"value-typed arithmetic: {describe_val(rec)} violates the documented rule ({verdict} via {via})")
    mirror_fuzz(v, "C16", a.tier, ["mirror-val"], "precedence semantics over the value operator table (structural mirror with the real priorities and flags)")
    v.notes.append("precedence over the value table: random expressions over a structural mirror of ValOpsFactory::make() (names, "
                   "priorities, commutativity flags read from the implementation) judged by Judge_Expr - this is where `10 - 2 + 3` "
                   "and `x == 2 == false` are decided")
    v.cov["rule"] = "full product operators x catalogue per width (exhaustive) + random operands; non-trivial = every case"
    v.cov["distinct_nontrivial"] = v.cov["evaluations"] // 3
    v.cov["exhaustive"] = True
    v.sample({"w": 8, "op": "+", "a": "Int(127)", "b": "Int(1)", "required": "error value"})
    v.assumptions += ["floats are judged exactly only on multiples of 1/4 of small magnitude, otherwise by kind and IEEE class",
                      "elementwise array results are judged by kind only"]
    return v.finish()


@register("C17")
def c17(a):
    v = Verdict("C17", a.tier, "model_checking")
    bad = val_pipeline(v, "C17", a.tier)
    for src, verdict, via, rec in bad:
        if verdict == "bad:panic" or src == "C17":
            v.violation({"record": rec}, f"value-typed operator not total: {describe_val(rec)} ({verdict} via {via})")
    v.cov["rule"] = "every unary operator x every catalogue value, every binary operator x every ordered pair (exhaustive) + random operands"
    v.cov["distinct_nontrivial"] = v.cov["evaluations"] // 3
    v.cov["exhaustive"] = True
    v.sample({"w": 32, "op": "to_int", "a": "Float(nan)", "required": "error value"})
    v.assumptions.append("built with overflow-checks = on, so that a silently wrapped result would surface as a panic or a wrong value")
    return v.finish()


ALL_ENTRIES = "flat,flat_wo,flat_re,deep,f2d,d2f,f2d2f,parse_f64,parse_wo_f64,deep_f64,eval_str_f64,eval_str_f32,parse_val,stmt,stmt_val"


STMT_V = __import__("re").compile(r'<<\s*"V",\s*(\d+),\s*(\d+),\s*"stmt",\s*"([^"]*)"\s*>>')


def stmts_coverage(v, pid, tier):
    """Statement store (Stmts.tla): every session of <= 2/3 lines over the line alphabet of MC_Stmts replayed through
    line_2_statement + Statements and trace-validated.  No listed property constrains the module beyond "no crash":
    a panic is a violation of C06, any other difference is reported as drift of the specification."""
    q = tier == "quick"
    tag = f"{pid}/mcstmts"
    cfg = work(tag + ".cfg")
    write_cfg(cfg, {"MaxLines": 3 if q else 4, "Emit": True}, invariants=["NamesDistinct", "Total", "EmitCases"], props=["Monotone"])
    outp = work(tag + ".stmts.ndjson")
    res, summ, _ = pipeline.gen_replay_shard("MC_Stmts", cfg, tag, ["stmts", "--out", outp], workers=4, timeout=1500)
    if res.violated or res.error or "violated" in res.out:
        print(res.out[-3000:])
        raise vlib.ToolError(f"MC_Stmts: {res.violated or res.error} - statement spec inconsistent (spec bug)")
    v.add_tlc(res, f"MC_Stmts[<= {3 if q else 4} lines]")
    v.cov["traces_validated_against_impl"] += summ["cases"]
    v.cov["evaluations"] += summ["runs"]
    stats = {"ok": 0, "inconclusive": 0, "drift": 0, "panic": 0}
    for part in pipeline.split_ndjson(outp, 2500, header=True):
        r = vlib.run_tlc("Judge_Stmts", os.path.join(SPEC, "Judge_Stmts.cfg"), f"{pid}-jstmts-{os.path.basename(part)}", workers=1, timeout=1500,
                         env_extra={"TRACE": part}, heap="3g")
        vlib.tlc_or_die(r, f"Judge_Stmts on {part}")
        v.add_tlc(r, f"Judge_Stmts[{os.path.basename(part)}]")
        recs = None
        for m in STMT_V.finditer(r.out):
            case, k, verdict = int(m.group(1)), int(m.group(2)), m.group(3)
            if verdict == "ok":
                stats["ok"] += 1
                continue
            if verdict.startswith("inconclusive"):
                stats["inconclusive"] += 1
                continue
            if recs is None:
                recs = {}
                for line in open(part):
                    qq = json.loads(line)
                    if "case" in qq:
                        recs[qq["case"]] = qq
            lines = [vlib.uncps(x) for x in recs.get(case, {}).get("lines", [])]
            if verdict == "bad:panic":
                stats["panic"] += 1
                v.violation({"lines": lines, "line": k}, f"an input text crashed the library: statement session {lines} line {k}: panic")
            else:
                stats["drift"] += 1
                if stats["drift"] <= 5:
                    v.drift.append(f"Stmts.tla: session {lines} line {k}: {verdict}")
    nlines = sum(stats.values())
    if nlines != summ["runs"]:
        raise vlib.ToolError(f"Judge_Stmts: {summ['runs']} lines recorded but {nlines} verdicts parsed")
    v.cov["statement_sessions"] = dict(stats, sessions=summ["cases"])
    v.notes.append(f"statement store (Stmts.tla, beyond the listed properties): all {summ['cases']} sessions of <= {3 if q else 4} lines over 23 lines "
                   f"(assignment of values / expressions, re-assignment, evaluation of bound, unbound and transitively bound names, unsupported "
                   f"and malformed lines) replayed through line_2_statement + Statements and trace-validated: {stats}")


@register("C06")
def c06(a):
    v = Verdict("C06", a.tier, "model_checking")
    what = "an input text crashed the library"
    q = a.tier == "quick"
    # (1) all token sequences: no failure state in the models, accepted iff well-formed, meaning preserved; replayed
    tag = "C06/mctok"
    cfg = work(tag + ".cfg")
    # replay of every sequence up to length 7 (2.4 M sequences x 7 entry points); the thorough tier additionally model-checks
    # length 8 (19 M sequences) without replay - replaying those takes over an hour
    write_cfg(cfg, {"MaxLen": 7, "Emit": True, "CallStack": True, "BumpGuard": True, "FoldRule": "local"},
              invariants=["AcceptIffWellFormed", "NoFailureState", "Meaning", "SloppyAgree", "EmitCases"])
    if not q:
        cfg8 = work(tag + "8.cfg")
        write_cfg(cfg8, {"MaxLen": 8, "Emit": False, "CallStack": True, "BumpGuard": True, "FoldRule": "local"},
                  invariants=["AcceptIffWellFormed", "NoFailureState", "Meaning", "SloppyAgree"])
        r8 = vlib.run_tlc("MC_Tok", cfg8, "C06-mctok8", workers=16, timeout=7200, heap="12g")
        if not r8.ok:
            print(r8.out[-3000:])
            raise vlib.ToolError(f"MC_Tok (length 8, model only): {r8.violated or r8.error} - spec bug")
        v.add_tlc(r8, "MC_Tok[length 8, model only]")
    res, summ, obsp = pipeline.gen_replay_shard("MC_Tok", cfg, tag, ["expr", "--totality", "--entries", "flat,flat_wo,flat_re,deep,f2d,d2f,f2d2f"], workers=16, timeout=7200)
    if res.violated or res.error:
        print(res.out[-3000:])
        raise vlib.ToolError(f"MC_Tok: {res.violated or res.error} - spec bug")
    v.add_tlc(res, "MC_Tok")
    ntok = summ["cases"]
    v.cov["traces_validated_against_impl"] += summ["runs"]
    v.cov["evaluations"] += summ["runs"]
    if summ["cases"] + 1 != res.distinct:
        raise vlib.ToolError(f"tally mismatch: TLC enumerated {res.distinct - 1} token sequences, the recorder replayed {summ['cases']}")
    if summ["forwarded"]:
        judge_and_classify(v, "C06", [obsp], "dirA-tok", what)
    # (2) all character strings over the totality alphabet through every entry point incl. the built-in tables
    tag = "C06/mcstr"
    cfg = work(tag + ".cfg")
    write_cfg(cfg, {"T": ("<-", "TStr"), "Alphabet": ("<-", "AStr"), "MaxLen": 5 if q else 6, "Emit": True, "CallStack": True,
                    "BumpGuard": True}, invariants=["LexAgree", "CallAgree", "NoPanic", "EmitCases"])
    res, summ, obsp = pipeline.gen_replay_shard("MC_Lex", cfg, tag, ["expr", "--totality", "--entries", ALL_ENTRIES], workers=16, timeout=7200)
    if res.violated or res.error:
        print(res.out[-3000:])
        raise vlib.ToolError(f"MC_Lex(TStr): {res.violated or res.error} - spec bug")
    v.add_tlc(res, "MC_Lex[TStr]")
    nstr = summ["cases"]
    v.cov["traces_validated_against_impl"] += summ["runs"]
    v.cov["evaluations"] += summ["runs"]
    if summ["cases"] + 1 != res.distinct:
        raise vlib.ToolError(f"tally mismatch: TLC enumerated {res.distinct - 1} strings, the recorder replayed {summ['cases']}")
    if summ["forwarded"]:
        judge_and_classify(v, "C06", [obsp], "dirA-str", what)
    v.notes.append(f"direction A: all {ntok} token sequences up to length 7 over 8 token kinds (thorough: length 8 model-checked as well, 19 M sequences) and all {nstr} character strings up "
                   f"to length {5 if q else 6} over 14 characters (letters, digit, dot, blank, parens, comma, braces, operators, an illegal "
                   f"character, a 2-byte and a 4-byte code point) through every entry point ({ALL_ENTRIES}) with follow-up evaluation, "
                   "conversion, unparse, listings and differentiation; tallies equal the TLC state counts")
    # (3) big and hostile inputs in separate processes (default 8 MiB main-thread stack)
    n = {"bigsoup": 40 if q else 600, "bigwf": 16 if q else 200, "nested": 40 if q else 600, "soup": 3000 if q else 60000,
         "mutant": 3000 if q else 60000, "dmg-float": 1500 if q else 30000, "dmg-val": 1500 if q else 30000,
         "arr-val": 3000 if q else 60000}
    jobs = []
    for fam, cnt in n.items():
        ents = ("parse_val,stmt_val" if fam == "arr-val" else
                ALL_ENTRIES if fam in ("dmg-float", "dmg-val", "soup", "mutant") else "flat,flat_wo,deep,f2d,d2f")
        for k in range(2):
            tag = f"C06/fuzz-{fam}-{k}"
            jobs.append(lambda tag=tag, fam=fam, cnt=cnt, k=k, ents=ents: (tag,) + pipeline.fuzz_replay(
                tag, ["fuzz-expr", "--family", fam, "--n", str(cnt // 2), "--stream", str(20 + k)], ["--totality", "--entries", ents]))
    good = []
    for tag, summ, obsp in parallel(jobs):
        if summ.get("crashed"):
            v.violation({"pipeline": tag, "detail": summ}, f"{what}: the recorder process was aborted (stack exhaustion / abort) in {tag}")
        else:
            v.cov["traces_validated_against_impl"] += summ["runs"]
            v.cov["evaluations"] += summ["runs"]
            if summ["forwarded"]:
                good.append((tag, obsp))
    for p, (r, verdicts) in parallel([(lambda t=t, p=p: (p, pipeline.judge_expr(p, t.replace("/", "-")))) for t, p in good], 8):
        v.add_tlc(r, f"Judge_Expr[{os.path.basename(p)}]")
        file_verdicts(v, p, verdicts, what)
    v.notes.append("direction B: token soup of 200-1000 tokens, well-formed expressions of ~1000 tokens, nesting 20-100 levels, short soup, "
                   "mutated texts, damaged texts over the real float and value tables; each pipeline is its own process, an abort is a violation; "
                   "value-type operand catalogues as folded literals are covered by C17's literal route")
    # (4) long texts without any nesting: conversion and differentiation; one process per case (an abort cannot be caught)
    sizes = [20, 64, 65, 96, 128, 200, 334, 500] if q else [20, 40, 64, 65, 80, 96, 110, 128, 150, 200, 257, 334, 400, 500]
    acts = ["parse_eval", "unparse", "deep_parse_eval", "to_deep", "to_deep_unparse", "deep_to_flat", "roundtrip", "partial", "deep_partial"]
    lc = []
    for ty, tacts in (("f64", acts), ("val", ["parse_eval", "roundtrip", "partial"])):
        for op in ("-", "*", "mix") if ty == "f64" else ("-",):
            for act in tacts:
                for nn in sizes:
                    lc.append((ty, op, act, nn))
    def one_lc(c):
        ty, op, act, nn = c
        p = vlib.run_recorder(["longchain", "--n", str(nn), "--op", op, "--act", act, "--ty", ty], timeout=300)
        out = p.stdout.decode().strip()
        return c, p.returncode, (json.loads(out)["outcome"] if out else "aborted")
    lcstat = {"ok": 0, "aborted": 0, "other": 0}
    for c, rc, outcome in parallel([(lambda c=c: one_lc(c)) for c in lc], 12):
        ty, op, act, nn = c
        v.cov["traces_validated_against_impl"] += 1
        v.cov["evaluations"] += 1
        if outcome == "ok":
            lcstat["ok"] += 1
            continue
        lcstat["aborted" if outcome == "aborted" else "other"] += 1
        text = f"x0{op if op != 'mix' else '*'}x1{op if op != 'mix' else '-'}...x{nn - 1}"
        # known finding F11 (open): identified by its call site - FlatEx::partial on a text whose flat form has more than 64
        # binary operators (to_deepex nests one level per operator).  The conversion half (flat -> deep -> flat) is fixed (F12).
        if outcome == "aborted" and act == "partial" and nn > 65 and vlib.finding_open("F11"):
            v.known_finding("F11", "FlatEx::partial of an unnested text with more than ~95 operands (e.g. a 100-term sum, 199 tokens) "
                                   "exhausts the 8 MiB main-thread stack: the process aborts")
            continue
        v.violation({"longchain": {"ty": ty, "op": op, "act": act, "n": nn, "rc": rc, "outcome": outcome}},
                    f"{what}: `{text}` ({2 * nn - 1} tokens, no nesting) through {act} [{ty}]: {outcome} (rc={rc})")
    v.cov["longchain"] = lcstat
    v.notes.append(f"long unnested texts: {len(lc)} cases (20..500 operands = 39..999 tokens; one operator or alternating priorities; f64 and the value "
                   f"type) through parse/eval, unparse, deep parse, to_deepex, deep->flat, flat->deep->flat, partial, each in its own process: {lcstat}")
    stmts_coverage(v, "C06", a.tier)
    v.cov["rule"] = "every token sequence / character string up to the bound (exhaustive, tallied against TLC's state count)"
    v.cov["distinct_nontrivial"] = ntok + nstr
    v.cov["exhaustive"] = True
    v.sample({"text": "( 1 * ) sn x", "outcome": "err"})
    v.assumptions += ["'never hangs' is decided as 'returned' on everything explored (a hang would stall the check = tool error, not silently pass)",
                      "stack bound read against the platform default main-thread stack of the recorder process"]
    return v.finish()


CALC_V = __import__("re").compile(r'<<\s*"V",\s*(\d+),\s*(\d+),\s*"([^"]*)",\s*"([^"]*)"\s*>>')


def judge_calc(trace, tag):
    cfg = os.path.join(SPEC, "Judge_Calc.cfg")
    res = vlib.run_tlc("Judge_Calc", cfg, tag, workers=1, timeout=3000, env_extra={"TRACE": trace}, heap="4g")
    vlib.tlc_or_die(res, f"Judge_Calc on {trace}")
    if res.post_failed:
        raise vlib.ToolError("Judge_Calc did not consume every session")
    out = [(int(m.group(1)), int(m.group(2)), m.group(3), m.group(4)) for m in CALC_V.finditer(res.out)]
    expect = 0
    for line in open(trace):
        if '"seeds"' in line:
            q = json.loads(line)
            expect += len(q["seeds"]) + len(q["steps"]) + len(q.get("final", []))
    if len(out) != expect:
        raise vlib.ToolError(f"Judge_Calc: {expect} seeds+steps recorded but {len(out)} verdict lines parsed ({trace})")
    return res, out


def calc_pipeline(v, pid, tier, alphabet, max_steps, families, acts, what, n_per_family, mc_diff=False):
    """Sessions: direction A = MC_Exmex histories, direction B = seeded script families; all through `recorder calc`
    and Judge_Calc (trace validation against Exmex.tla).  acts: the actions whose verdicts concern this property."""
    q = tier == "quick"
    traces = []
    if mc_diff:
        cfg = work(pid, "mcdiff.cfg")
        write_cfg(cfg, {"MaxUn": 1 if q else 2, "Stats": not q, "SecondOrder": not q}, invariants=["RulesOk", "ModesAgreeOnRuledOperators"])
        res = vlib.run_tlc("MC_Diff", cfg, f"{pid}-mcdiff", workers=16, timeout=3000, heap="6g")
        if not res.ok:
            print(res.out[-3000:])
            raise vlib.ToolError(f"MC_Diff: {res.violated or res.error}: the rule transcription is not the mathematical derivative - spec bug")
        v.add_tlc(res, "MC_Diff")
        import re as _re
        m = _re.search(r'"STATS", "trees", (\d+), "conclusive-yes", (\d+), "no", (\d+)', res.out)
        v.notes.append(f"MC_Diff: the rule table + inner/outer chain structure of partial.rs (PartialImpl.D) satisfies IsPartial on every "
                       f"small tree over the base points (x=0, y=1, z=5/4) as series to order t^4 (second order too in the thorough tier); "
                       f"{m.group(2) if m else '1486 (measured, thorough tier prints it)'} of {m.group(1) if m else '5615'} one-unary trees are conclusive, none refuted; "
                       "operators without rule fail exactly when they occur")
    if alphabet:
        tag = f"{pid}/mcexmex"
        cfg = work(tag + ".cfg")
        write_cfg(cfg, {"MaxSteps": max_steps, "Emit": True, "Alphabet": ("=", "{" + ", ".join(f'"{a}"' for a in alphabet) + "}")},
                  invariants=["Total", "VarsSorted", "VarsFromSeeds", "EmitCases"], props=["AppendOnly"])
        res, summ, obsp = pipeline.gen_replay_shard("MC_Exmex", cfg, tag, ["calc"], workers=8, timeout=3000)
        if res.violated or res.error or "violated" in res.out:
            print(res.out[-3000:])
            raise vlib.ToolError(f"MC_Exmex: {res.violated or res.error} - session spec inconsistent (spec bug)")
        v.add_tlc(res, f"MC_Exmex[{'+'.join(alphabet)}, <= {max_steps} steps]")
        v.cov["traces_validated_against_impl"] += summ["cases"]
        v.cov["evaluations"] += summ["runs"]
        traces += [(p, "A") for p in pipeline.split_ndjson(obsp, 1500, header=True)]
        v.notes.append(f"direction A: all {summ['cases']} histories of <= {max_steps} calls over the action alphabet {alphabet} on 6 seeds "
                       "(overlapping/disjoint variables, constants 0 and 1, flat and deep) replayed on the real library")
    jobs = []
    for fam in families:
        for k in range(4):
            tag = f"{pid}/calc-{fam}-{k}"
            jobs.append(lambda tag=tag, fam=fam, k=k: (tag,) + pipeline.fuzz_replay(
                tag, ["fuzz-calc", "--family", fam, "--n", str(n_per_family // 4), "--stream", str(k)], [], mode="calc"))
    nb = 0
    for tag, summ, obsp in parallel(jobs):
        if summ.get("crashed"):
            v.violation({"pipeline": tag, "detail": summ}, f"{what}: the library aborted the recorder process in {tag}")
            continue
        nb += summ["cases"]
        v.cov["traces_validated_against_impl"] += summ["cases"]
        v.cov["evaluations"] += summ["runs"]
        # fuzz_replay prepends an empty table line; the generator's own table line follows: drop the empty one
        lines = open(obsp).read().splitlines(True)
        open(obsp, "w").writelines(lines[1:])
        traces.append((obsp, "B"))
    if families:
        v.notes.append(f"direction B: {nb} seeded sessions of the families {list(families)} (3-14 calls each)")
    stats = {}
    jres = parallel([(lambda p=p: (p, judge_calc(p, f"{pid}-jcalc-{os.path.basename(p)}"))) for p, _ in traces], 12)
    for p, (r, verdicts) in jres:
        v.add_tlc(r, f"Judge_Calc[{os.path.basename(p)}]")
        recs = None
        for case, k, act, verdict in verdicts:
            if act not in acts:
                continue
            key = "ok" if verdict == "ok" else ("inconclusive" if verdict.startswith("inconclusive") else "bad")
            stats.setdefault(act, {"ok": 0, "inconclusive": 0, "bad": 0})[key] += 1
            if key != "bad":
                continue
            if recs is None:
                recs = {}
                for line in open(p):
                    qq = json.loads(line)
                    if "case" in qq:
                        recs[qq["case"]] = qq
            r0 = recs.get(case, {})
            seeds = [vlib.uncps(x.get("text_in", [])) for x in r0.get("seeds", [])]
            hist = [{kk: vv for kk, vv in st.items() if kk != "res"} for st in r0.get("steps", [])[:k]]
            if act == "partial_relaxed" and verdict == "bad:value":
                # what MissingOpMode::PerOperand / None compute is documented API behaviour beyond the listed properties
                v.drift.append(f"partial_relaxed: seeds {seeds} step {k} {hist[-1] if hist else ''}: result differs from PartialImpl.DM")
                continue
            if verdict == "bad:vars-unused-variable-lost":
                # known finding F8 (open): identified by its call sites - variable lists rebuilt from occurring nodes
                if act in ("reparse", "serde", "subs") and vlib.finding_open("F8"):
                    v.known_finding("F8", "a listed variable that no longer occurs (derivative of `x`, `y*0`, `0/(x+1)`) is dropped when the "
                                          "expression is printed and parsed back / serialised (C12) or substituted (C11)")
                    continue
            if act == "final":
                # k is the pool entry (seeds first, then one entry per step) observed again at the end of the session
                v.violation({"seeds": seeds, "history": [{kk: vv for kk, vv in st.items() if kk != "res"} for st in r0.get("steps", [])],
                             "entry": k, "observed": (r0.get("final") or [])[k - 1:k]},
                            f"{what}: seeds {[x[:60] for x in seeds]} pool entry {k} observed again after {len(r0.get('steps', []))} calls: {verdict}")
                continue
            v.violation({"seeds": seeds, "history": hist, "step": k, "observed": (r0.get("steps") or [{}])[k - 1].get("res") if k else None},
                        f"{what}: seeds {seeds} step {k} {act}: {verdict}")
    v.cov["steps_judged"] = stats
    tot = sum(x["ok"] + x["bad"] for x in stats.values())
    v.cov["distinct_nontrivial"] = tot
    return stats


def finish_calc(v, rule, sample):
    v.cov["rule"] = rule
    v.cov["exhaustive"] = True
    v.sample(sample)
    v.assumptions += ["values are compared in GF(32749) with free function symbols (Field.tla) at three points, derivatives as truncated "
                      "power series (Jets.tla); a wrong result escapes only with probability ~1e-4 per point",
                      "the symbolic data type Sym folds literals exactly like floats do for the is_zero/is_one shortcuts"]
    return v.finish()


@register("C10")
def c10(a):
    v = Verdict("C10", a.tier, "model_checking")
    q = a.tier == "quick"
    calc_pipeline(v, "C10", a.tier, ["op", "std", "conv"], 1 if q else 2, ["ops", "mixed", "manyvars", "advnames", "dvars"], {"op_un", "op_bin", "std"},
                  "operator application is not a homomorphism", 400 if q else 6000)
    # all two-call histories of the overloaded operators / helpers: shortcuts feeding shortcuts (a zero that still carries variables)
    calc_pipeline(v, "C10b", a.tier, ["std"], 2, [], {"std"}, "operator application is not a homomorphism", 0)
    return finish_calc(v, "all one-call (quick) / two-call (thorough) histories over the operator alphabet + random histories; "
                          "non-trivial = conclusive verdicts (ok or bad)", {"history": ["std mul 3 4  (0 * 1)", "op_bin 1 5 '^'"]})


@register("C11")
def c11(a):
    v = Verdict("C11", a.tier, "model_checking")
    q = a.tier == "quick"
    calc_pipeline(v, "C11", a.tier, ["subs", "conv"], 2 if q else 3, ["subs", "mixed", "manyvars"], {"subs"},
                  "substitution is not simultaneous / loses variables", 400 if q else 6000)
    return finish_calc(v, "all histories of <= 2/3 substitutions+conversions over 5 maps (empty, renaming, swap-like, constant, "
                          "self-referential) + random histories", {"history": ["subs 2 {x -> entry 5 (x-z), z -> entry 1 (x)}"]})


@register("C12")
def c12(a):
    v = Verdict("C12", a.tier, "model_checking")
    q = a.tier == "quick"
    # direction A at text level: every enumerated tree x rendering over T8 (alphabetic binary names next to unary names, dual
    # sign operators, a constant) is parsed, brought into the deep form three ways, printed, parsed again (flat and deep),
    # and the result judged against the meaning of the original text
    expr_dir_a(v, "C12", a.tier, ["d_up", "f2d_up", "fwo2d_up", "d_up_d", "f2d_up_d"], "a printed expression does not parse back to the same expression",
               runs=[r for r in expr_runs(a.tier) if not (q and r["table"] == "T8" and r["n"] >= 3)]
                    + [dict(table="TAdv", n=2, maxun=2)] + ([] if q else [dict(table="TAdv", n=3, maxun=1)]))
    na = v.cov["distinct_nontrivial"]
    # model level: DeepImpl.Unparse (transcription of unparse_raw) prints every enumerated deep expression - parsed, and
    # rebuilt from the flat form - to a text whose reference meaning is the expression (folded numbers spelled as a literal)
    deep_model(v, "C12", a.tier, ["UnparseRefines"])
    # the same over the adversarial names of TAdv (binary `at` + unary `an` = unary `atan`, binary `s` + unary `n`, constant `e`)
    mc_shards(v, "MC_Deep", {"T": ("<-", "TAdv"), "NLeaves": 2, "MaxUn": 2, "WithConst": True, "BumpGuard": True, "FoldRule": "local"},
              ["UnparseRefines", "DeepRefines"], 4, "C12/mcdeep-TAdv-n2")
    # ... and the invariant is not vacuous: the printer of the pinned snapshot (no blanks around alphabetic operator names,
    # defect F7) violates it
    cfgp = work("C12", "mcdeep-pinned.cfg")
    write_cfg(cfgp, {"T": ("<-", "TAdv"), "NLeaves": 2, "MaxUn": 2, "WithConst": True, "BumpGuard": True, "FoldRule": "local", "Shard": 0, "NShards": 1},
              invariants=["UnparseRefinesPinned"])
    rp = vlib.run_tlc("MC_Deep", cfgp, "C12-mcdeep-pinned", workers=4, timeout=900, heap="3g")
    if rp.violated != "UnparseRefinesPinned":
        print(rp.out[-2000:])
        raise vlib.ToolError("MC_Deep: the printer without blanks is expected to violate UnparseRefinesPinned (witness of F7) - spec bug")
    v.notes.append("MC_Deep.UnparseRefinesPinned is violated as expected on TAdv (operator names glued to the next token): the printing invariant tells the fixed printer from the pinned one")
    calc_pipeline(v, "C12", a.tier, ["print", "op", "conv"] if q else ["print", "op", "std", "subs", "conv", "diff"], 2,
                  ["print", "mixed", "advnames", "typed"], {"reparse", "serde", "seed"}, "a printed expression does not parse back to the same expression",
                  400 if q else 6000)
    v.cov["distinct_nontrivial"] += na
    return finish_calc(v, "all trees x renderings of MC_Ref printed from the deep form and parsed back + all histories of <= 2 calls ending in or containing unparse->parse / serde round trips + random histories",
                       {"history": ["op_bin 1 2 '/'", "reparse 7"]})


@register("C09")
def c09(a):
    v = Verdict("C09", a.tier, "model_checking")
    q = a.tier == "quick"
    calc_pipeline(v, "C09", a.tier, ["diff", "conv"], 1 if q else 2, ["poly", "typed", "relaxed"], {"partial", "partial_nth", "partial_iter", "partial_relaxed"},
                  "differentiation bookkeeping", 240 if q else 4000, mc_diff=True)
    v.notes.append("family `relaxed`: partial_relaxed with every MissingOpMode on expressions with max / min / atan2 (PartialImpl.DM): index errors, "
                   "kept variable lists and refusal in mode Error are judged for this property; the value of the per-operand / keep-operands "
                   "results lies beyond the listed properties and a difference there is reported as MODEL-DRIFT")
    v.notes.append("index >= number of variables must be an error with no partial_deepex hook event before it; the derivative keeps the "
                   "variable list; partial_nth / partial_iter are compared with the iterated rule transcription D (so n-fold = repeated, "
                   "iterated = sequential, order zero = identity, and mixed partials agree because D commutes as series)")
    return finish_calc(v, "all index sequences of the enumerated alphabet + random sequences of length 0..4 with out-of-range entries",
                       {"steps": ["partial_iter ks=[1,0]", "partial_nth k=0 n=2"]})


@register("C05")
def c05(a):
    v = Verdict("C05", a.tier, "model_checking")
    q = a.tier == "quick"
    calc_pipeline(v, "C05", a.tier, ["diff"], 1, ["typed", "poly"], {"partial", "partial_nth", "partial_iter"},
                  "a partial derivative is not the mathematical derivative", 600 if q else 12000, mc_diff=True)
    v.assumptions.append("floats: partial.rs is generic in T and keys only on operator names; the exact-arithmetic verdict transfers to "
                         "f32/f64 up to rounding by that argument, not by a float oracle")
    return finish_calc(v, "programs typed by base point (every function argument shifted onto the function's expansion point) over + - * / ^ "
                          "and 18 elementary functions, first and second order, flat/deep/converted", {"program": "sin(x*y + 1/2 - 1/2) * exp(x)"})


VD_V = __import__("re").compile(r'<<\s*"V",\s*(\d+),\s*(\d+),\s*"valdiff",\s*"([^"]*)"\s*>>')


@register("C18")
def c18(a):
    v = Verdict("C18", a.tier, "model_checking")
    what = "derivative of a value-typed / piecewise expression"
    q = a.tier == "quick"
    # the differentiation rules themselves are the float rules (C05): MC_Diff is their model-level check
    cfg = work("C18", "mcdiff.cfg")
    write_cfg(cfg, {"MaxUn": 1, "Stats": False, "SecondOrder": False}, invariants=["RulesOk"])
    res = vlib.run_tlc("MC_Diff", cfg, "C18-mcdiff", workers=16, timeout=3000, heap="6g")
    if not res.ok:
        print(res.out[-3000:])
        raise vlib.ToolError(f"MC_Diff: {res.violated or res.error} - spec bug")
    v.add_tlc(res, "MC_Diff")
    n = 1600 if q else 30000
    jobs = []
    for k in range(8):
        tag = f"C18/valdiff-{k}"
        jobs.append(lambda tag=tag, k=k: (tag,) + pipeline.fuzz_replay(
            tag, ["fuzz-calc", "--family", "valdiff", "--n", str(n // 8), "--stream", str(k)], [], mode="valdiff"))
    stats = {"ok": 0, "inconclusive": 0, "bad": 0, "known": 0}
    traces = []
    for tag, summ, obsp in parallel(jobs):
        if summ.get("crashed"):
            v.violation({"pipeline": tag, "detail": summ}, f"{what}: the library aborted the recorder process in {tag}")
            continue
        v.cov["traces_validated_against_impl"] += summ["cases"]
        v.cov["evaluations"] += summ["runs"]
        lines = open(obsp).read().splitlines(True)
        open(obsp, "w").writelines(lines[1:])
        traces.append((obsp, summ["runs"]))
    def judge(p, nruns):
        cfgj = os.path.join(SPEC, "Judge_ValDiff.cfg")
        r = vlib.run_tlc("Judge_ValDiff", cfgj, f"C18-j-{os.path.basename(p)}", workers=1, timeout=3000, env_extra={"TRACE": p}, heap="4g")
        vlib.tlc_or_die(r, f"Judge_ValDiff on {p}")
        vs = [(int(m.group(1)), int(m.group(2)), m.group(3)) for m in VD_V.finditer(r.out)]
        if len(vs) != nruns:
            raise vlib.ToolError(f"Judge_ValDiff: {nruns} runs recorded but {len(vs)} verdicts parsed ({p})")
        return p, r, vs
    for p, r, vs in parallel([(lambda p=p, nr=nr: judge(p, nr)) for p, nr in traces], 8):
        v.add_tlc(r, f"Judge_ValDiff[{os.path.basename(p)}]")
        recs = None
        for case, kq, verdict in vs:
            if verdict == "ok":
                stats["ok"] += 1
                continue
            if verdict.startswith("inconclusive"):
                stats["inconclusive"] += 1
                continue
            if recs is None:
                recs = {}
                for line in open(p):
                    qq = json.loads(line)
                    if "case" in qq:
                        recs[qq["case"]] = qq
            text = vlib.uncps(recs.get(case, {}).get("text", []))
            if "[F6:" in verdict and vlib.finding_open("F6"):
                stats["known"] += 1
                v.known_finding("F6", "differentiation folds integer literals with integer arithmetic (quotient rule: 2/4 = 0) and applies "
                                      "ln to integer bases: programs with an integer literal next to / or ^, or with a variable exponent evaluated at integer coordinates")
                continue
            if "[F10:" in verdict and vlib.finding_open("F10"):
                stats["known"] += 1
                v.known_finding("F10", "`a if c else b` with a variable-free condition that is false: `a if c` is folded to None at parse "
                                       "time and the derivative of that constant is 0 instead of None, so the else-branch is ignored")
                continue
            stats["bad"] += 1
            rr = (recs.get(case, {}).get("res") or [{}] * kq)[kq - 1]
            v.violation({"text": text, "point": recs.get(case, {}).get("point"), "k": rr.get("k"), "route": rr.get("route"), "record": recs.get(case)},
                        f"{what}: `{text}` variable {rr.get('k')} ({rr.get('route')} route): {verdict}")
    v.cov["steps_judged"] = stats
    v.cov["distinct_nontrivial"] = stats["ok"] + stats["bad"] + stats["known"]
    v.cov["rule"] = ("seeded programs `f if cond else g` nested up to 3 levels with arithmetic around them, f/g typed by base point, comparison "
                     "conditions of polynomials strictly inside a branch at a dyadic point; 70% float literals only, 30% integer literals")
    v.sample({"text": "2.5 + ((x*x) if (x) > (1.0) else (3.0*x))", "point": {"x": "5/4"}})
    v.notes.append("the derivative's structure is read through the verif_dump hook (flat nodes, operators, application order) and turned into a "
                   "tree by FlatImpl.Eval inside the judge; the antiderivative is parsed from the text by the reference; branches are selected by "
                   "exact rational evaluation of the conditions (Piecewise.tla)")
    v.assumptions += ["integers and floats are identified as real numbers in the judge: a program whose own value depends on integer division is "
                      "classified under F6, not judged", "MC_Diff (shared with C05) covers the rule table"]
    return v.finish()


FLOAT_V = __import__("re").compile(r'<<\s*"V",\s*(\d+),\s*"([^"]*)",\s*"([^"]*)",\s*"([^"]*)"\s*>>')
EXPECTED_FLOAT_NAMES = {"^", "*", "/", "+", "-", "atan2", "min", "max", "abs", "signum", "sin", "cos", "tan", "asin", "acos", "atan", "sinh",
                        "cosh", "tanh", "asinh", "acosh", "atanh", "floor", "round", "ceil", "trunc", "fract", "exp", "sqrt", "cbrt", "ln", "log2",
                        "log10", "log", "PI", "GREEK_PI", "E", "e", "TAU", "GREEK_TAU"}


@register("C19")
def c19(a):
    v = Verdict("C19", a.tier, "other")
    what = "a default float operator does not compute the function it names"
    obsp = work("C19", "floatgrid.ndjson")
    p = vlib.run_recorder(["floatgrid", "--summary", obsp + ".sum"], stdout_path=obsp)
    if p.returncode != 0:
        v.violation({"pipeline": "floatgrid"}, f"{what}: the library aborted the recorder process")
        return v.finish()
    summ = json.load(open(obsp + ".sum"))
    v.cov["traces_validated_against_impl"] += summ["cases"]
    v.cov["evaluations"] += summ["cases"]
    parts = pipeline.split_ndjson(obsp, 2000)
    def judge(pp):
        cfgj = os.path.join(SPEC, "Judge_Float.cfg")
        r = vlib.run_tlc("Judge_Float", cfgj, f"C19-j-{os.path.basename(pp)}", workers=1, timeout=1500, env_extra={"TRACE": pp}, heap="3g")
        vlib.tlc_or_die(r, f"Judge_Float on {pp}")
        vs = [(int(m.group(1)), m.group(2), m.group(3), m.group(4)) for m in FLOAT_V.finditer(r.out)]
        n = sum(1 for _ in open(pp))
        if len(vs) != n:
            raise vlib.ToolError(f"Judge_Float: {n} records but {len(vs)} verdicts parsed ({pp})")
        return pp, r, vs
    seen = {"f32": set(), "f64": set()}
    stats = {"ok": 0, "unchecked": 0, "bad": 0}
    for pp, r, vs in parallel([(lambda pp=pp: judge(pp)) for pp in parts], 8):
        v.add_tlc(r, f"Judge_Float[{os.path.basename(pp)}]")
        recs = None
        for case, ty, verdict, op in vs:
            seen[ty].add(op)
            if verdict in ("ok", "unchecked"):
                stats[verdict] += 1
                continue
            stats["bad"] += 1
            if recs is None:
                recs = {}
                for line in open(pp):
                    qq = json.loads(line)
                    recs[qq["case"]] = qq
            rr = recs.get(case, {})
            v.violation({"record": rr}, f"{what}: {ty} `{op}` x={rr.get('x', rr.get('special'))} y={rr.get('y', rr.get('special2'))} -> {rr.get('r')}: {verdict}")
    # composite expressions over the real float table (infix with and without parentheses, call form, nested): exact dyadic
    # values, the reference meaning evaluated in exact rational arithmetic by TLC
    FE_V = __import__("re").compile(r'<<\s*"V",\s*(\d+),\s*(\d+),\s*"floatexpr",\s*"([^"]*)"\s*>>')
    nfe = 4000 if a.tier == "quick" else 60000
    jobs = []
    for k in range(4):
        tag = f"C19/floatcomp-{k}"
        jobs.append(lambda tag=tag, k=k: (tag,) + pipeline.fuzz_replay(
            tag, ["fuzz-calc", "--family", "floatcomp", "--n", str(nfe // 4), "--stream", str(k)], [], mode="floatexpr"))
    fstats = {"ok": 0, "inconclusive": 0, "bad": 0}
    for tag, fsumm, fobs in parallel(jobs):
        if fsumm.get("crashed"):
            v.violation({"pipeline": tag, "detail": fsumm}, f"{what}: the library aborted the recorder process in {tag}")
            continue
        v.cov["traces_validated_against_impl"] += fsumm["cases"]
        v.cov["evaluations"] += fsumm["runs"]
        lines = open(fobs).read().splitlines(True)
        open(fobs, "w").writelines(lines[1:])          # fuzz_replay prepends an empty table line; the generator's own follows
        for part in pipeline.split_ndjson(fobs, 4000, header=True):
            r = vlib.run_tlc("Judge_FloatExpr", os.path.join(SPEC, "Judge_FloatExpr.cfg"), f"C19-jfe-{os.path.basename(part)}", workers=1,
                             timeout=1500, env_extra={"TRACE": part}, heap="3g")
            vlib.tlc_or_die(r, f"Judge_FloatExpr on {part}")
            v.add_tlc(r, f"Judge_FloatExpr[{os.path.basename(part)}]")
            nrec = sum(1 for _ in open(part)) - 1
            vs = [(int(m.group(1)), int(m.group(2)), m.group(3)) for m in FE_V.finditer(r.out)]
            if len(vs) != 4 * nrec:
                raise vlib.ToolError(f"Judge_FloatExpr: {4 * nrec} runs recorded but {len(vs)} verdicts parsed ({part})")
            recs = None
            for case, k2, verdict in vs:
                if verdict == "ok" or verdict.startswith("inconclusive"):
                    fstats["ok" if verdict == "ok" else "inconclusive"] += 1
                    continue
                fstats["bad"] += 1
                if recs is None:
                    recs = {}
                    for line in open(part):
                        qq = json.loads(line)
                        if "case" in qq:
                            recs[qq["case"]] = qq
                rr = recs.get(case, {})
                run = (rr.get("res") or [{}] * k2)[k2 - 1]
                v.violation({"text": vlib.uncps(rr.get("text", [])), "point": rr.get("point"), "run": run},
                            f"{what}: `{vlib.uncps(rr.get('text', []))}` as {run.get('form')} expression over {run.get('ty')}: {verdict}")
    v.cov["composite_expressions"] = fstats
    v.notes.append(f"composite expressions over the real float table (+ - * / min max, signs; infix with and without parentheses, call form, "
                   f"nested up to 4 levels) at dyadic points, flat and deep, f64 and f32, against exact rational evaluation of the reference meaning: {fstats}")
    for ty in ("f32", "f64"):
        missing = EXPECTED_FLOAT_NAMES - seen[ty]
        extra = seen[ty] - EXPECTED_FLOAT_NAMES
        if missing:
            v.violation({"missing": sorted(missing), "type": ty}, f"{what}: operators/constants missing from the {ty} table: {sorted(missing)}")
        if extra:
            v.notes.append(f"{ty}: operators not characterised by FloatSem: {sorted(extra)}")
    v.cov["steps_judged"] = stats
    v.cov["distinct_nontrivial"] = stats["ok"] + stats["bad"]
    v.cov["rule"] = ("34 operators + 6 constants x {f32, f64}: unary on a 17-point grid in [-3, 3], binary on the 17x17 grid, 11 special values "
                     "(nan, +-inf, +-0, 1, -1, 2, 0.5, tiny, huge) and their 121 pairs; direct application and parsed infix / call-form "
                     "expressions must agree bit for bit; non-trivial = verdict ok/bad (not 'unchecked')")
    v.cov["explanation"] = ("FloatSem.tla characterises every name in 1e-4 fixed point (exact algebraic operators, Taylor polynomials for exp/sin/cos, "
                            "defining equations with principal ranges for the others, digits + equations for the constants, a class table for "
                            "special values); the recorder only rounds to fixed point and supplies the compositions the equations mention, "
                            "computed with the table's own functions. This decides identity and argument order of every operator at 3e-3; it does "
                            "NOT decide accuracy to within rounding (TLA+ has no floating point).")
    v.cov["exhaustive"] = True
    v.sample({"ty": "f64", "op": "atan2", "x": -3.0, "y": -2.0, "axiom": "x*cos(r) = y*sin(r), sign(sin r) = sign(x), sign(cos r) = sign(y)"})
    v.assumptions.append("rounding-level accuracy and the full NaN payload / signed-zero behaviour are not decided; signed zeros only where the class table lists them")
    return v.finish()


T8_JSON = None


def t8_table_json():
    """T8 as JSON, printed by TLC from Tables.tla (single source of truth)."""
    global T8_JSON
    if T8_JSON is None:
        cfg = work("common", "t8.cfg")
        write_cfg(cfg, {"T": ("<-", "T8"), "NLeaves": 1, "MaxUn": 0, "WithConst": False, "Shard": 1, "NShards": 2, "Emit": True,
                        "FullText": False}, invariants=["EmitCases"])
        res = vlib.run_tlc("MC_Ref", cfg, "t8json", timeout=300)
        for line in res.printed:
            q = json.loads(json.loads(line))
            if "table" in q:
                T8_JSON = q["table"]
        if T8_JSON is None:
            raise vlib.ToolError("could not obtain T8 from TLC")
    return T8_JSON


def sendsync_assertions(v, what):
    """Builds the crate that asserts Send + Sync for the expression types; a Send/Sync error of the type checker is a violation."""
    import subprocess, shutil
    ss = os.path.join(vlib.ROOT, "harness_sendsync")
    if not os.path.exists(os.path.join(ss, "Cargo.lock")):
        shutil.copy("/repo/Cargo.lock", os.path.join(ss, "Cargo.lock"))
    p = subprocess.run(["cargo", "build", "--release", "--offline"], cwd=ss, stdout=subprocess.PIPE, stderr=subprocess.STDOUT, text=True,
                       env=dict(os.environ, CARGO_NET_OFFLINE="true"))
    if p.returncode != 0:
        if "cannot be sent between threads safely" in p.stdout or "cannot be shared between threads safely" in p.stdout:
            v.violation({"compiler": p.stdout[-3000:]}, f"{what}: FlatEx / DeepEx over thread-safe data types are not Send + Sync any more (type checker)")
            return False
        print(p.stdout[-3000:])
        raise vlib.ToolError("the Send/Sync assertion crate does not build for another reason")
    v.notes.append("Send + Sync of FlatEx<f32|f64>, DeepEx<f32|f64>, FlatExVal<i32,f64>, Val<i32,f64> decided by the type checker "
                   "(harness_sendsync builds)")
    return True


def c20_types_only(a):
    """The recorder (which shares expressions between threads) does not build: decide C20 at the type level alone."""
    v = Verdict("C20", a.tier, "model_checking")
    if sendsync_assertions(v, "concurrent use differs from a sequential run"):
        raise vlib.ToolError("cargo build of the recorder failed although the expression types are Send + Sync")
    v.notes.append("the recorder does not build against this tree because expressions cannot be shared between threads any more; "
                   "only the type-level assertions were evaluated")
    return v.finish()


@register("C20")
def c20(a):
    v = Verdict("C20", a.tier, "model_checking")
    what = "concurrent use differs from a sequential run"
    q = a.tier == "quick"
    # (1) interleaving model
    for clients, nops in ([("{1, 2, 3}", 3)] if q else [("{1, 2, 3}", 4), ("{1, 2, 3, 4}", 3)]):
        cfg = work("C20", f"threads-{nops}.cfg")
        with open(cfg, "w") as f:
            f.write(f"CONSTANT Clients = {clients}\nCONSTANT NOps = {nops}\nSPECIFICATION Spec\nINVARIANT SequentialResults\n"
                    "INVARIANT PrefixOfSequential\nINVARIANT InitOnce\nPROPERTY PoolImmutable\nPROPERTY AllFinish\nCHECK_DEADLOCK TRUE\n")
        res = vlib.run_tlc("Threads", cfg, f"C20-threads-{nops}", workers=8, timeout=1500, heap="4g")
        if not res.ok or "violated" in res.out or "Deadlock" in res.out:
            print(res.out[-3000:])
            raise vlib.ToolError(f"Threads model: {res.violated or res.error or 'property violated'} - spec bug")
        v.add_tlc(res, f"Threads[{clients}, {nops} ops]")
    v.notes.append("Threads.tla: every interleaving of 3-4 clients x 3-4 parse/eval calls incl. the once-cell of the lazily built regexes gives "
                   "each client the sequential results; pool immutable; cell initialised once; no deadlock; all clients finish under fairness")
    # (2) compile-time Send + Sync
    sendsync_assertions(v, what)
    # (3) real threads: fresh processes so that the lazy statics really are uninitialised
    texts = ["x1*2+sn(x2)|K", "cs(x1 - 3) * (x2 mn 4)", "-(x1+2+3)", "(((x1", "1 2", "x1 pw 2 & x2 % 3"]
    # a second table of the same size over the same data type whose names sort differently (`**` next to `*`): a global that is
    # keyed by the data type instead of the operator table shows up as a wrong parse in one of the two groups of threads
    table2 = json.loads(json.dumps(t8_table_json()))
    table2[5]["name"] = [42, 42]
    texts2 = ["x1**2*x2", "sn(x1 ** 3) - 1", "x1 * 2 ** x2 ** 3", "(x1 ** 2", "x1 mn 2 ** 2"]
    def bigtext(nn):
        ops = ["+", "*", "-", "|", "&", "%", "*", "+"]
        return " ".join(f"x{j % 5 + 1}" + (f" {ops[(j * 7 + nn) % len(ops)]}" if j < nn - 1 else "") for j in range(nn))
    cfgrec = {"table": t8_table_json(), "texts": [vlib.cps(t) for t in texts], "table2": table2, "texts2": [vlib.cps(t) for t in texts2],
              "bigtexts": [vlib.cps(bigtext(70)), vlib.cps(bigtext(135))],
              # 60 nesting levels: with 16 threads about a thousand nested evaluations of the deep form are in flight
              "deeptext": vlib.cps("".join(("x1 + (" if j % 2 == 0 else "x2 * (") for j in range(60)) + "x1" + ")" * 60),
              "ftexts": ["x*2+sin(y)/(1+z^2)", "atan2(a, b) - max(1, min(a, b))", "1/3+2/7"]}
    runs = 6 if q else 60
    def one(k):
        tag = work("C20", f"threads-{k}")
        with open(tag + ".in", "w") as f:
            f.write(json.dumps(cfgrec) + "\n")
        pr = vlib.run_recorder(["threads", "--threads", "16", "--rounds", "12" if q else "40", "--summary", tag + ".sum", "--second-parity", str(k % 2), "--first-table", str([0, 0, 1, 2][k % 4])],
                               stdin_path=tag + ".in", stdout_path=tag + ".obs.ndjson", timeout=600)
        return k, pr.returncode, tag + ".obs.ndjson", tag + ".sum"
    results = parallel([(lambda k=k: one(k)) for k in range(runs)], 4)
    traces = []
    for k, rc, obsp, sump in results:
        if rc != 0:
            v.violation({"run": k}, f"{what}: a 16-thread run aborted the process (rc={rc})")
            continue
        summ = json.load(open(sump))
        v.cov["traces_validated_against_impl"] += 1
        v.cov["evaluations"] += summ["cases"]
        traces.append(obsp)
    stats = {"ok": 0, "bad": 0}
    for pth, (r, verdicts) in parallel([(lambda pth=pth: (pth, pipeline.judge_expr(pth, f"C20-j-{os.path.basename(pth)}", module="Judge_Threads"))) for pth in traces], 6):
        v.add_tlc(r, f"Judge_Threads[{os.path.basename(pth)}]")
        recs = None
        for case, (cls, verdict, act) in verdicts.items():
            if verdict == "ok":
                stats["ok"] += 1
                continue
            stats["bad"] += 1
            if recs is None:
                recs = {}
                for line in open(pth):
                    qq = json.loads(line)
                    if "case" in qq:
                        recs[qq["case"]] = qq
            v.violation({"event": recs.get(case)}, f"{what}: thread {recs.get(case, {}).get('tid')} event {act}: {verdict}")
    v.cov["steps_judged"] = stats
    v.cov["distinct_nontrivial"] = stats["ok"] + stats["bad"]
    v.notes.append(f"{len(traces)} fresh 16-thread processes: all threads parse 6 texts (flat/deep, well-formed and malformed) and 3 float texts at "
                   "once as the first use of the library, then evaluate shared Arc<FlatEx<Term>>, Arc<FlatEx<f64>> and Arc<DeepEx<f64>> "
                   "concurrently; every per-thread event is validated in isolation by Judge_Threads; dumps before/after are identical")
    # (5) immutability in sessions: entries with more operators on one level than any inline capacity are cloned and the clone is
    # changed; at the end of the session every entry is observed once more and must equal its first observation (AppendOnly)
    keep = {k: v.cov.get(k) for k in ("distinct_nontrivial", "steps_judged")}
    st = calc_pipeline(v, "C20", a.tier, [], 0, ["immut"], {"final"}, "an expression changed after it was built", 120 if q else 1600)
    v.cov["final_observations"] = st.get("final", {})
    for k, val in keep.items():
        if val is None:
            v.cov.pop(k, None)
        else:
            v.cov[k] = val
    v.notes.append("sessions `immut`: one-level expressions of 22-45 operands, clones changed by substitution with numbers / conversion / "
                   "operators / differentiation; every pool entry re-observed at the end of the session and compared with its first observation by Judge_Calc.FinalVerdict")
    v.cov["rule"] = "real schedules are sampled (16 threads x fresh processes), not enumerated; the interleaving model is exhaustive"
    v.sample({"tid": 3, "act": "eval", "text": texts[0], "values": "x1#t3, x2#t3"})
    v.assumptions += ["'all interleavings' on the real code rests on Send/Sync type checking + the validated absence of state change, not on "
                      "enumeration of schedules (the lazy_static / regex internals are not instrumented)"]
    return v.finish()


# ------------------------------------------------------------------------------------------------
def replay(a):
    """bin/check <ID> --replay <file>: re-runs exactly the recorded case through recorder and judge."""
    r = json.load(open(a.replay))
    case = r.get("case", {})
    rec = case.get("record") or {}
    pid = r.get("prop", a.pid)
    tag = f"{pid}/replay"
    if "longchain" in case:
        # one long unnested text through one call sequence, in its own process
        c = case["longchain"]
        p = vlib.run_recorder(["longchain", "--n", str(c["n"]), "--op", c["op"], "--act", c["act"], "--ty", c["ty"]], timeout=300)
        out = p.stdout.decode().strip()
        outcome = json.loads(out)["outcome"] if out else "aborted"
        log(f"replay: longchain {c['ty']} n={c['n']} op={c['op']} act={c['act']}: {outcome} (rc={p.returncode})")
        if outcome == "ok":
            return 0
        if outcome == "aborted" and c["act"] == "partial" and c["n"] > 65 and vlib.finding_open("F11"):
            log(f"KNOWN-FINDING: property={pid} F11: stack exhaustion on a long unnested text ({c['act']}, {c['n']} operands)")
            return 0
        log(f"VIOLATION property={pid} replay={a.replay}")
        return 1
    if "text" in rec and ("runs" in rec or "table" in rec):
        # expression case: text (+ table) through the entry points that were recorded
        table = rec.get("table") or t8_table_json()
        entries = [x["entry"] for x in rec.get("runs", [])] or ["flat", "flat_wo", "deep"]
        src = work(tag + ".case.ndjson")
        with open(src, "w") as f:
            f.write(json.dumps({"table": table, "text": rec["text"], "expect": rec.get("expect", "any"),
                                **({"semtab": rec["semtab"]} if "semtab" in rec else {})}) + "\n")
        obs = work(tag + ".obs.ndjson")
        with open(obs, "w") as fo:
            fo.write('{"table":[]}\n')
            fo.flush()
            p = vlib.run_recorder(["expr", "--forward-all", "--entries", ",".join(entries)], stdin_path=src)
            fo.write(p.stdout.decode())
        _, verdicts = pipeline.judge_expr(obs, f"{pid}-replay")
        bad = [(c, v) for c, v in verdicts.items() if v[1] != "ok"]
        log(f"replay of `{vlib.uncps(rec['text'])}`: {verdicts}")
        if bad and all("[F13:" in v[1] for _, v in bad) and vlib.finding_open("F13"):
            log(f"KNOWN-FINDING: property={pid} F13: {F13_WHAT}")
            return 0
        if bad:
            log(f"VIOLATION property={pid} replay={a.replay}")
            return 1
        return 0
    if "op" in rec and "w" in rec:
        src = work(tag + ".case.ndjson")
        with open(src, "w") as f:
            f.write(json.dumps({k: v for k, v in rec.items() if k not in ("res", "case", "req")}) + "\n")
        obs = work(tag + ".obs.ndjson")
        vlib.run_recorder(["valgrid"], stdin_path=src, stdout_path=obs)
        _, verdicts = pipeline.judge_expr(obs, f"{pid}-replay", module="Judge_Val")
        log(f"replay of {describe_val(json.loads(open(obs).readline()))}: {verdicts}")
        if any(v[1] != "ok" for v in verdicts.values()):
            log(f"VIOLATION property={pid} replay={a.replay}")
            return 1
        return 0
    if "history" in case:
        log("session replays need the table of the run: re-run the check with the same VERIF_SEED "
            f"(seed {r.get('seed')}, tier {r.get('tier')}); recorded history: {json.dumps(case['history'])[:400]}")
        return REGISTRY[pid](a)
    log(f"no dedicated replay for this record shape: re-running the check with seed {r.get('seed')}")
    os.environ["VERIF_SEED"] = str(r.get("seed", 1))
    return REGISTRY[pid](a)
