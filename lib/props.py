"""Per-property checks.  Every verdict is computed by TLC from the TLA+ text; this file only orchestrates."""
import json
import os

import pipeline
import vlib
from vlib import OUT, SPEC, Verdict, log, parallel, write_cfg

REGISTRY = {}


def register(pid):
    def deco(f):
        REGISTRY[pid] = f
        return f
    return deco


def work(*parts):
    p = os.path.join(OUT, "work", *parts)
    os.makedirs(os.path.dirname(p), exist_ok=True)
    return p


# ------------------------------------------------------------------------------------------------
# direction A for expression cases: MC_Ref enumerates trees x renderings (and proves the reference
# lemmas on each), the recorder replays them, Judge_Expr decides everything that is not identical.
def mcref_replay(v, pid, runs, entries, nshards=16, sample_every=0):
    """runs: list of dict(table, n, maxun, wc).  Returns (total cases, forwarded obs paths)."""
    jobs = []
    for r in runs:
        ns = 1 if r["n"] <= 1 else (nshards if r["n"] >= 3 else 4)
        for sh in range(ns):
            tag = f"{pid}/mcref-{r['table']}-n{r['n']}-u{r['maxun']}-s{sh}"
            cfg = work(tag + ".cfg")
            write_cfg(cfg, {"T": ("<-", r["table"]), "NLeaves": r["n"], "MaxUn": r["maxun"],
                            "WithConst": r.get("wc", True), "Shard": sh, "NShards": ns, "Emit": True,
                            "FullText": r["n"] <= 2},
                      invariants=["TokLemma", "OneLemma", "TextLemma", "EmitCases"])
            jobs.append(lambda tag=tag, cfg=cfg: (tag,) + pipeline.gen_replay_shard(
                "MC_Ref", cfg, tag, ["expr", "--entries", ",".join(entries), "--sample-every", str(sample_every)]))
    results = parallel(jobs)
    obs, ncases, nruns, nident = [], 0, 0, 0
    for tag, res, summ, obsp in results:
        if res.violated or res.error:
            # the reference semantics disagrees with itself: the machinery is broken, not exmex
            print(res.out[-3000:])
            raise vlib.ToolError(f"reference lemma failed in {tag}: {res.violated or res.error}")
        v.add_tlc(res, tag)
        ncases += summ.get("cases", 0)
        nruns += summ.get("runs", 0)
        nident += summ.get("identical", 0)
        obs.append((tag.split("/mcref-")[1].split("-")[0], obsp))
    return ncases, nruns, nident, obs


def judge_and_classify(v, pid, obs_paths, tag, what):
    """Merges forwarded observations, lets TLC judge them, files violations."""
    trace = work(pid, tag + ".trace.ndjson")
    n = pipeline.merge_obs(obs_paths, trace)
    if n == 0:
        return 0
    recs = {}
    for line in open(trace):
        r = json.loads(line)
        if "case" in r:
            recs[r["case"]] = r
    nbad = 0
    for res, verdicts in pipeline.split_and_judge(trace, f"{pid}-judge-{tag}", n):
        v.add_tlc(res, f"Judge_Expr[{tag}]")
        for case, (cls, verdict, entry) in verdicts.items():
            if verdict == "ok":
                continue
            nbad += 1
            r = recs.get(case, {})
            text = vlib.uncps(r.get("text", []))
            v.violation({"text": text, "class": cls, "entry": entry, "record": r},
                        f"{what}: text `{text}` ({cls}) entry {entry}: {verdict}")
    judged = sum(len(vd) for _, vd in [(0, {})])  # placeholder to keep flake quiet
    return nbad


def mc_shards(v, module, base_consts, invariants, nshards, tag, timeout=1500):
    """Exhaustive TLC run of an implementation-shaped model, sharded by root operator."""
    jobs = []
    for sh in range(nshards):
        cfg = work(tag, f"{module}-s{sh}.cfg")
        consts = dict(base_consts, Shard=sh, NShards=nshards)
        write_cfg(cfg, consts, invariants=invariants)
        jobs.append(lambda cfg=cfg, sh=sh: vlib.run_tlc(module, cfg, f"{tag}-{module}-{sh}", timeout=timeout, heap="2g"))
    tot = 0
    for sh, res in enumerate(parallel(jobs)):
        if not res.ok:
            print(res.out[-3000:])
            raise vlib.ToolError(f"model {module} ({tag}, shard {sh}) does not satisfy {res.violated or res.error}: "
                                 "the implementation-shaped model no longer refines the reference - spec bug")
        v.add_tlc(res, f"{module}[{tag} shard {sh}]")
        tot += res.distinct
    return tot


def expr_runs(tier):
    if tier == "quick":
        return [dict(table="T8", n=1, maxun=2), dict(table="T8", n=2, maxun=2), dict(table="T8", n=3, maxun=1),
                dict(table="T5", n=4, maxun=0, wc=False)]
    return [dict(table="T8", n=1, maxun=3), dict(table="T8", n=2, maxun=2), dict(table="T8", n=3, maxun=2),
            dict(table="T5", n=4, maxun=1, wc=False), dict(table="T3", n=5, maxun=0, wc=False)]


def model_runs(tier):
    if tier == "quick":
        return [dict(table="T8", n=2, maxun=2, ns=4), dict(table="T8", n=3, maxun=1, ns=16),
                dict(table="T5", n=4, maxun=0, ns=12, wc=False)]
    return [dict(table="T8", n=2, maxun=2, ns=4), dict(table="T8", n=3, maxun=2, ns=16),
            dict(table="T5", n=4, maxun=1, ns=16, wc=False), dict(table="T3", n=5, maxun=0, ns=12, wc=False)]


def flat_model(v, pid, tier, invariants):
    n = 0
    for r in model_runs(tier):
        n += mc_shards(v, "MC_Flat", {"T": ("<-", r["table"]), "NLeaves": r["n"], "MaxUn": r["maxun"],
                                      "WithConst": r.get("wc", True), "BumpGuard": True},
                       invariants, r["ns"], f"{pid}/mcflat-{r['table']}-n{r['n']}")
    v.notes.append(f"MC_Flat: implementation-shaped model of make_expression/prioritized_indices_flat/eval_binary/"
                   f"compile refines the reference on {n} trees x 5 renderings (+ one redundant pair at every node)")


def expr_dir_a(v, pid, tier, entries, what, sample_every=0):
    ncases, nruns, nident, obs = mcref_replay(v, pid, expr_runs(tier), entries, sample_every=sample_every)
    v.cov["traces_validated_against_impl"] += nruns
    v.cov["evaluations"] += nruns
    v.notes.append(f"direction A: {ncases} TLC-enumerated (tree, rendering) cases replayed through {entries}; "
                   f"{nident} runs identical to the TLC expectation, the rest judged by Judge_Expr")
    for tab in sorted({t for t, _ in obs}):
        judge_and_classify(v, pid, [p for t, p in obs if t == tab], f"dirA-{tab}", what)
    for _, p in obs[:3]:
        for line in open(p):
            if '"runs"' in line:
                r = json.loads(line)
                v.sample({"text": vlib.uncps(r["text"]), "runs": [(x["entry"], x["outcome"]) for x in r["runs"]]})
                break
    v.cov["rule"] = ("all trees with <= N leaves over the model table (see notes) x 5 renderings; distinct by "
                     "construction; every case has at least one operator or one unary/paren decoration")
    v.cov["distinct_nontrivial"] = ncases
    v.cov["exhaustive"] = True


def expr_dir_b(v, pid, tier, entries, what, families=("mixed", "nested")):
    """Direction B: seeded random tables and big expressions, every record judged by TLC from its text."""
    nstreams = 8 if tier == "quick" else 16
    per = {"mixed": 24 if tier == "quick" else 150, "nested": 6 if tier == "quick" else 40,
           "soup": 1500 if tier == "quick" else 20000, "mutant": 1500 if tier == "quick" else 20000}
    hi = 140 if tier == "quick" else 300
    jobs = []
    for fam in families:
        for k in range(nstreams):
            tag = f"{pid}/fuzz-{fam}-{k}"
            jobs.append(lambda tag=tag, fam=fam, k=k: (tag,) + pipeline.fuzz_replay(
                tag, ["fuzz-expr", "--family", fam, "--n", str(per[fam]), "--stream", str(k), "--max-operands", str(hi)],
                ["--forward-all", "--entries", ",".join(entries)]))
    res = parallel(jobs)
    ncases = 0
    jj = []
    for tag, summ, obsp in res:
        if summ.get("crashed"):
            v.violation({"pipeline": tag, "detail": summ}, f"{what}: the library aborted the recorder process in {tag}")
            continue
        ncases += summ["cases"]
        v.cov["traces_validated_against_impl"] += summ["runs"]
        v.cov["evaluations"] += summ["runs"]
        jj.append((tag, obsp))
    # judge every stream (TLC recomputes lexing, parsing and the AC normal form from the recorded text)
    jres = parallel([(lambda t=t, p=p: (p, pipeline.judge_expr(p, t.replace("/", "-")))) for t, p in jj], 8)
    nbad = 0
    for p, (r, verdicts) in jres:
        v.add_tlc(r, f"Judge_Expr[{os.path.basename(p)}]")
        recs = None
        for case, (cls, verdict, entry) in verdicts.items():
            if verdict == "ok":
                continue
            if recs is None:
                recs = {}
                for line in open(p):
                    q = json.loads(line)
                    if "case" in q:
                        recs[q["case"]] = q
            nbad += 1
            q = recs.get(case, {})
            text = vlib.uncps(q.get("text", []))
            v.violation({"text": text, "class": cls, "entry": entry, "record": q},
                        f"{what}: random text `{text[:200]}` ({cls}) entry {entry}: {verdict}")
    v.notes.append(f"direction B: {ncases} seeded random texts, families {list(families)} (big expressions up to {hi} operands, "
                   f"0-40 variables, nesting to 100, token soup, mutated texts; random tables with priority ties) "
                   f"through {entries}, every record judged by Judge_Expr")
    return ncases


@register("C01")
def c01(a):
    v = Verdict("C01", a.tier, "model_checking")
    flat_model(v, "C01", a.tier, ["Refines", "RefinesOne"])
    expr_dir_a(v, "C01", a.tier, ["flat", "flat_wo"], "evaluation differs from the documented semantics")
    expr_dir_b(v, "C01", a.tier, ["flat", "flat_wo"], "evaluation differs from the documented semantics")
    v.assumptions += ["decided for the free term algebra; other data types are homomorphic images because the "
                      "generic code touches T only through Clone, Default, FromStr and the supplied fn pointers",
                      "tracker abstracted to an alive vector in FlatImpl (bit level: Tracker.tla, C14)"]
    return v.finish()


@register("C02")
def c02(a):
    v = Verdict("C02", a.tier, "model_checking")
    flat_model(v, "C02", a.tier, ["Refines", "Shrinks"])
    deep_model(v, "C02", a.tier, ["DeepRefines"])
    ents = ["flat", "flat_wo", "flat_re", "flat_wo_re", "deep"]
    expr_dir_a(v, "C02", a.tier, ents, "folded/unfolded/re-folded/deep expressions differ from the reference")
    expr_dir_b(v, "C02", a.tier, ents, "folded/unfolded/re-folded/deep expressions differ from the reference",
               families=("mixed", "soup", "mutant"))
    return v.finish()


def deep_model(v, pid, tier, invariants):
    n = 0
    for r in model_runs(tier):
        n += mc_shards(v, "MC_Deep", {"T": ("<-", r["table"]), "NLeaves": r["n"], "MaxUn": r["maxun"],
                                      "WithConst": r.get("wc", True), "BumpGuard": True, "FoldRule": "local"},
                       invariants, r["ns"], f"{pid}/mcdeep-{r['table']}-n{r['n']}")
    v.notes.append(f"MC_Deep: implementation-shaped model of the deep parser, DeepEx::compile (lift_nodes, decline mask), "
                   f"flatten_vecs and flatex_to_deepex refines the reference on {n} trees x renderings ({invariants})")


@register("C03")
def c03(a):
    v = Verdict("C03", a.tier, "model_checking")
    deep_model(v, "C03", a.tier, ["DeepRefines", "FlattenRefines", "DeepenRefines"])
    ents = ["flat", "deep", "f2d", "fwo2d", "d2f", "f2d2f", "d2f2d"]
    what = "flat and deep forms are not interchangeable"
    expr_dir_a(v, "C03", a.tier, ents, what, sample_every=6)
    expr_dir_b(v, "C03", a.tier, ents, what, families=("mixed", "nested", "soup", "mutant"))
    v.notes.append("operator listings (sorted, duplicate-free, applied-to-variable subset, subset of the text, flat = deep "
                   "without constant sub-expressions) are judged on every forwarded record; direction A forwards a record "
                   "only if some value or variable list is not identical to the TLC expectation")
    return v.finish()
