"""bin/check <ID> --selftest: demonstrates that the judge is bound to the recorded behaviour: a small genuine trace is
recorded from the real library, every record is accepted; then one field per record is corrupted (operands swapped, a
variable renamed, a result changed, a step perturbed) and the judge must reject every corrupted record.
exit 0: all corruptions rejected and all genuine records accepted; exit 2 otherwise (the machinery is broken)."""
import copy
import json
import os
import re

import pipeline
import props
import vlib
from vlib import log


def _swap_first_bin(t):
    """Corrupts a tree in a way no property allows: the first binary node loses its right operand."""
    if isinstance(t, dict):
        if t.get("k") == "bin":
            left = t["l"]
            t.clear()
            t.update(left)
            return True
        for k in ("a",):
            if k in t and _swap_first_bin(t[k]):
                return True
    return False


def _write(path, recs, header=None):
    with open(path, "w") as f:
        if header is not None:
            f.write(json.dumps(header) + "\n")
        for r in recs:
            f.write(json.dumps(r) + "\n")


def _verdicts(path, module, tag, rx=pipeline.VERDICT_RE, key=lambda m: int(m.group(1)), ok=lambda m: m.group(3) == "ok"):
    cfg = os.path.join(vlib.SPEC, module + ".cfg")
    res = vlib.run_tlc(module, cfg, tag, workers=1, timeout=900, env_extra={"TRACE": path}, heap="3g")
    vlib.tlc_or_die(res, f"{module} selftest")
    out = {}
    for m in rx.finditer(res.out):
        out.setdefault(key(m), []).append(ok(m))
    return {k: all(v) for k, v in out.items()}


def run(a):
    pid = a.pid
    w = lambda n: props.work(pid, "selftest-" + n)
    genuine, corrupted, module = [], [], None
    header = None
    rx, key, okf = pipeline.VERDICT_RE, (lambda m: int(m.group(1))), (lambda m: m.group(3) == "ok")
    if pid in ("C01", "C02", "C03", "C06", "C07", "C08", "C14"):
        module = "Judge_Expr"
        texts = ["x1*2-sn(x2)|3", "-(x1+2+3)", "cs(1 mn 2) & x2", "K % x1 - 2 - 3", "(x1)", "x1 pw 2 pw 3"]
        header = {"table": props.t8_table_json()}
        src = w("cases.ndjson")
        _write(src, [{"text": vlib.cps(t), "expect": "any"} for t in texts], header)
        p = vlib.run_recorder(["expr", "--forward-all", "--entries", "flat,deep"], stdin_path=src)
        recs = [json.loads(l) for l in p.stdout.decode().splitlines() if '"runs"' in l]
        genuine = recs
        for r in recs:
            c = copy.deepcopy(r)
            run0 = c["runs"][0]
            if not _swap_first_bin(run0["den"]):
                run0["vars"] = run0["vars"] + [[122]]          # an extra variable
            corrupted.append(c)
    elif pid == "C13":
        module = "Judge_Lex"
        header = {"table": props.t8_table_json()}
        src = w("cases.ndjson")
        _write(src, [{"text": vlib.cps(t)} for t in ["sn4 + x1", "sn 4", "cs(K)", "1.5.", "x1 mn 2", "--x1"]], header)
        p = vlib.run_recorder(["lex", "--forward-all"], stdin_path=src)
        recs = [json.loads(l) for l in p.stdout.decode().splitlines() if '"case"' in l]
        genuine = recs
        for r in recs:
            c = copy.deepcopy(r)
            if c["st"] == "ok" and c["toks"]:
                c["toks"] = c["toks"][:-1]                      # a dropped token
            else:
                c["st"] = "ok"; c["toks"] = []; c["pre"] = True   # an illegal text reported as accepted
            corrupted.append(c)
    elif pid in ("C16", "C17"):
        module = "Judge_Val"
        src = w("cases.ndjson")
        _write(src, [{"w": 8, "op": "+", "ar": 2, "a": {"k": "int", "v": 100}, "b": {"k": "int", "v": 27}},
                     {"w": 8, "op": "*", "ar": 2, "a": {"k": "int", "v": 5}, "b": {"k": "int", "v": 7}},
                     {"w": 16, "op": "-", "ar": 1, "a": {"k": "int", "v": 3}},
                     {"w": 32, "op": "<<", "ar": 2, "a": {"k": "int", "v": 1}, "b": {"k": "int", "v": 4}}])
        obs = w("obs.ndjson")
        vlib.run_recorder(["valgrid"], stdin_path=src, stdout_path=obs)
        recs = [json.loads(l) for l in open(obs)]
        genuine = recs
        for r in recs:
            c = copy.deepcopy(r)
            d = c["res"]["direct"]
            if d.get("k") == "int":
                d["v"] += 1                                       # a wrong (e.g. wrapped) result
            else:
                c["res"]["direct"] = {"k": "int", "v": 0}          # a value instead of an error
            corrupted.append(c)
        rx = pipeline.VERDICT_RE
    elif pid in ("C05", "C09", "C10", "C11", "C12"):
        module = "Judge_Calc"
        p = vlib.run_recorder(["fuzz-calc", "--family", "poly" if pid in ("C05", "C09") else "ops", "--n", "12"])
        src = w("scripts.ndjson")
        open(src, "wb").write(p.stdout)
        p = vlib.run_recorder(["calc"], stdin_path=src)
        lines = p.stdout.decode().splitlines()
        header = json.loads(lines[0])
        recs = [json.loads(l) for l in lines[1:]]
        genuine = recs
        minus = 1 + [k for k, o in enumerate(header["table"]) if o["name"] == [45] and o["bin"]][0]
        for r in recs:
            c = copy.deepcopy(r)
            done = False
            for st in c["steps"]:
                res = st["res"]
                if res.get("outcome") == "ok" and st["act"] not in ("partial", "partial_nth", "partial_iter"):
                    # the recorded value minus one: never the specified value
                    res["den"] = {"k": "bin", "o": minus, "l": res["den"], "r": {"k": "num", "n": 1, "d": 1}}
                    done = True
                    break
            if not done:
                for st in c["steps"]:
                    if st["res"].get("outcome") == "ok":
                        st["res"]["vars"] = st["res"]["vars"] + [[122, 122]]
                        done = True
                        break
            if done:
                corrupted.append(c)
        rx, key, okf = props.CALC_V, (lambda m: int(m.group(1))), (lambda m: not m.group(4).startswith("bad"))
    elif pid == "C19":
        module = "Judge_Float"
        obs = w("obs.ndjson")
        vlib.run_recorder(["floatgrid"], stdout_path=obs)
        direct = {"+", "-", "*", "min", "max", "abs", "floor", "ceil", "trunc", "round", "fract", "exp", "sin", "cos", "sinh", "cosh", "signum"}
        recs = [r for r in (json.loads(l) for l in open(obs)) if r["opa"] in direct and "special" not in r and r["r"]["c"] == "fin"][:900:13]
        for k, r in enumerate(recs):
            r["case"] = k + 1
        genuine = recs
        for r in recs:
            c = copy.deepcopy(r)
            if c["r"]["c"] == "fin":
                c["r"]["v"] += 400                                  # 4e-2 off
                if "aux" in c:
                    for kk in c["aux"]:
                        c["aux"][kk]["v"] += 400
                corrupted.append(c)
        rx, okf = props.FLOAT_V, (lambda m: m.group(3) in ("ok", "unchecked"))
    else:
        log(f"SELFTEST {pid}: the judge of this property is exercised by the self-tests of "
            "C01 (Judge_Expr), C13 (Judge_Lex), C16 (Judge_Val), C10 (Judge_Calc), C19 (Judge_Float); "
            "additionally every check verifies that the number of verdict lines equals the number of records")
        return 0
    gpath, cpath = w("genuine.ndjson"), w("corrupted.ndjson")
    for k, r in enumerate(corrupted):
        r["case"] = k + 1
    for k, r in enumerate(genuine):
        r["case"] = k + 1
    _write(gpath, genuine, header)
    _write(cpath, corrupted, header)
    g = _verdicts(gpath, module, f"{pid}-selftest-g", rx, key, okf)
    c = _verdicts(cpath, module, f"{pid}-selftest-c", rx, key, okf)
    acc = sum(1 for v in g.values() if v)
    rej = sum(1 for v in c.values() if not v)
    log(f"SELFTEST {pid} [{module}]: genuine records accepted {acc}/{len(genuine)}; corrupted records rejected {rej}/{len(corrupted)}")
    if acc != len(genuine) or rej != len(corrupted) or not corrupted:
        log("SELFTEST FAILED: the judge is not bound to the recorded behaviour as expected")
        return 2
    return 0
