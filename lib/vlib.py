"""Driver library: TLC runs, recorder runs, verdict protocol, evidence files (python3 stdlib only)."""
import concurrent.futures as cf
import json
import os
import re
import shutil
import subprocess
import sys
import time

ROOT = os.path.dirname(os.path.dirname(os.path.abspath(__file__)))
SPEC = os.path.join(ROOT, "spec")
OUT = os.environ.get("VERIF_OUT") or os.path.join(ROOT, "out")      # mutant runs use their own scratch tree
HARNESS = os.path.join(ROOT, "harness")
RECORDER = os.path.join(HARNESS, "target", "release", "recorder")
JAR = "/opt/veriftools/tla/tla2tools.jar:/opt/veriftools/tla/CommunityModules-deps.jar"
NCPU = min(16, os.cpu_count() or 4)


class ToolError(Exception):
    pass


def log(msg):
    print(msg, flush=True)


def seed():
    try:
        return int(os.environ.get("VERIF_SEED", "1"))
    except ValueError:
        return 1


# ------------------------------------------------------------------------------------------- build
def build_harness():
    """cargo build of the recorder against /repo's current working tree (hooks on via .cargo/config.toml)."""
    os.makedirs(OUT, exist_ok=True)
    lock = os.path.join(HARNESS, "Cargo.lock")
    if not os.path.exists(lock):
        shutil.copy("/repo/Cargo.lock", lock)
    env = dict(os.environ, CARGO_NET_OFFLINE="true")
    t0 = time.time()
    p = subprocess.run(["cargo", "build", "--release", "--offline"], cwd=HARNESS, env=env,
                       stdout=subprocess.PIPE, stderr=subprocess.STDOUT, text=True)
    if p.returncode != 0:
        sys.stdout.write(p.stdout[-6000:])
        raise ToolError("cargo build of the recorder failed (exmex does not compile with hooks on?)")
    return time.time() - t0


# --------------------------------------------------------------------------------------------- TLC
class TlcResult:
    def __init__(self):
        self.rc = None
        self.generated = 0
        self.distinct = 0
        self.violated = None      # name of violated invariant
        self.error = None         # TLC evaluation error text
        self.printed = []         # PrintT lines (raw)
        self.out = ""
        self.wall = 0.0
        self.post_failed = False

    @property
    def ok(self):
        return self.rc == 0 and self.violated is None and self.error is None and not self.post_failed


def write_cfg(path, constants, invariants=(), init="Init", nxt="Next", post=None, constraint=None,
              view=None, props=()):
    lines = []
    for k, v in constants.items():
        if isinstance(v, tuple) and v[0] == "<-":
            lines.append(f"CONSTANT {k} <- {v[1]}")
        elif isinstance(v, tuple) and v[0] == "=":
            lines.append(f"CONSTANT {k} = {v[1]}")
        elif isinstance(v, bool):
            lines.append(f"CONSTANT {k} = {'TRUE' if v else 'FALSE'}")
        elif isinstance(v, str):
            lines.append(f'CONSTANT {k} = "{v}"')
        else:
            lines.append(f"CONSTANT {k} = {v}")
    lines.append(f"INIT {init}")
    lines.append(f"NEXT {nxt}")
    for i in invariants:
        lines.append(f"INVARIANT {i}")
    for p in props:
        lines.append(f"PROPERTY {p}")
    if post:
        lines.append(f"POSTCONDITION {post}")
    if constraint:
        lines.append(f"CONSTRAINT {constraint}")
    if view:
        lines.append(f"VIEW {view}")
    lines.append("CHECK_DEADLOCK FALSE")
    with open(path, "w") as f:
        f.write("\n".join(lines) + "\n")


_tlc_counter = [0]


def run_tlc(module, cfg_path, tag, workers=1, timeout=600, env_extra=None, heap="3g", stdout_to=None,
            simulate=None, deque=False):
    """Runs TLC on spec/<module>.tla with the given cfg. Returns TlcResult.
    stdout_to: if given, a file object / pipe that receives PrintT lines (cases) while TLC runs."""
    _tlc_counter[0] += 1
    meta = os.path.join(OUT, "tlc", f"{tag}-{os.getpid()}-{_tlc_counter[0]}")
    os.makedirs(meta, exist_ok=True)
    cmd = ["java", "-Xss1g", f"-Xmx{heap}"]
    cmd += ["-XX:+UseSerialGC", "-XX:CICompilerCount=2"] if workers <= 2 else ["-XX:+UseParallelGC"]
    if deque:
        cmd.append("-Dtlc2.tool.queue.IStateQueue=StateDeque")
    cmd += ["-cp", JAR, "tlc2.TLC", "-workers", str(workers), "-metadir", meta, "-cleanup",
            "-noGenerateSpecTE", "-config", cfg_path]
    if simulate:
        cmd += ["-simulate", simulate]
    cmd.append(os.path.join(SPEC, module + ".tla"))
    env = dict(os.environ)
    env.pop("JAVA_TOOL_OPTIONS", None)
    if env_extra:
        env.update(env_extra)
    res = TlcResult()
    t0 = time.time()
    try:
        p = subprocess.Popen(cmd, cwd=SPEC, env=env, stdout=subprocess.PIPE, stderr=subprocess.STDOUT,
                             text=True, errors="replace")
        chunks = []
        deadline = t0 + timeout
        for line in p.stdout:
            if line.startswith('"'):
                if stdout_to is not None:
                    stdout_to.write(line)
                else:
                    res.printed.append(line.rstrip("\n"))
            else:
                chunks.append(line)
            if time.time() > deadline:
                p.kill()
                raise ToolError(f"TLC timeout after {timeout}s on {module} ({tag})")
        p.wait()
        res.rc = p.returncode
        res.out = "".join(chunks)
    finally:
        shutil.rmtree(meta, ignore_errors=True)
    res.wall = time.time() - t0
    m = re.search(r"(\d+) states generated, (\d+) distinct states found", res.out)
    if m:
        res.generated, res.distinct = int(m.group(1)), int(m.group(2))
    m = re.search(r"Invariant (\w+) is violated", res.out)
    if m:
        res.violated = m.group(1)
    if "Postcondition" in res.out and ("violated" in res.out or "false" in res.out.lower()):
        if re.search(r"(?i)postcondition .* (is )?(violated|false)", res.out):
            res.post_failed = True
    if res.violated is None and res.rc != 0:
        em = re.search(r"Error: (.*?)(\n\n|\Z)", res.out, re.S)
        res.error = (em.group(1) if em else res.out[-2000:]).strip()
        if "Postcondition" in res.error or "postcondition" in res.error:
            res.post_failed = True
            res.error = None
    return res


def tlc_or_die(res, what):
    """A TLC run that is part of the machinery itself (not a verdict) must succeed."""
    if res.error is not None or (res.rc not in (0, 12) and not res.post_failed):
        sys.stdout.write(res.out[-4000:])
        raise ToolError(f"TLC failed on {what}: {res.error}")


def counterexample_state(res):
    """Extracts the text of the violating state from a TLC trace."""
    m = re.search(r"Error: The behavior up to this point is:(.*?)(\n\d+ states generated|\Z)", res.out, re.S)
    return (m.group(1).strip() if m else "")[:6000]


def parallel(jobs, nworkers=NCPU):
    """jobs: list of callables; returns list of results in order. Exceptions propagate."""
    with cf.ThreadPoolExecutor(max_workers=nworkers) as ex:
        futs = [ex.submit(j) for j in jobs]
        return [f.result() for f in futs]


# ---------------------------------------------------------------------------------------- recorder
def run_recorder(args, stdin_path=None, stdout_path=None, timeout=1800, env_extra=None, stdin_pipe=None):
    env = dict(os.environ)
    env["VERIF_SEED"] = str(seed())
    if env_extra:
        env.update(env_extra)
    fin = open(stdin_path, "rb") if stdin_path else stdin_pipe
    fout = open(stdout_path, "wb") if stdout_path else subprocess.PIPE
    try:
        p = subprocess.run([RECORDER] + args, stdin=fin, stdout=fout, stderr=subprocess.PIPE, env=env,
                           timeout=timeout)
    except subprocess.TimeoutExpired:
        raise ToolError(f"recorder timeout: {args}")
    finally:
        if stdin_path:
            fin.close()
        if stdout_path:
            fout.close()
    return p


# ------------------------------------------------------------------------------- verdicts/evidence
def load_known():
    p = os.path.join(ROOT, "known_findings.json")
    if not os.path.exists(p):
        return []
    return json.load(open(p)).get("findings", [])


def finding_open(fid):
    """Is the finding listed as open in the committed known_findings.json?  (a fixed entry suppresses nothing)"""
    return any(f.get("id") == fid and f.get("status") == "open" for f in load_known())


class Verdict:
    """Collects what a check run found and writes evidence / prints the protocol lines."""

    def __init__(self, pid, tier, level):
        self.pid = pid
        self.tier = tier
        self.level = level
        self.t0 = time.time()
        self.violations = []      # list of dict(case=..., reason=...)
        self.known = {}           # finding id -> count
        self.cov = {"states": 0, "transitions": 0, "traces_validated_against_impl": 0, "samples": [],
                    "evaluations": 0, "distinct_nontrivial": 0, "rule": "", "engines": []}
        self.assumptions = []
        self.notes = []
        self.drift = []

    def add_tlc(self, res, name):
        self.cov["states"] += res.distinct
        self.cov["transitions"] += res.generated
        self.cov["engines"].append({"run": name, "distinct_states": res.distinct, "states_generated": res.generated,
                                    "wall_s": round(res.wall, 1)})

    def sample(self, x, cap=12):
        if len(self.cov["samples"]) < cap:
            self.cov["samples"].append(x)

    def violation(self, case, reason):
        self.violations.append({"case": case, "reason": reason})

    def known_finding(self, fid, what):
        self.known.setdefault(fid, {"count": 0, "what": what})
        self.known[fid]["count"] += 1

    def finish(self):
        evdir = os.environ.get("VERIF_EVIDENCE_DIR") or os.path.join(ROOT, "evidence")   # mutant runs write elsewhere
        os.makedirs(evdir, exist_ok=True)
        os.makedirs(os.path.join(OUT, "replay"), exist_ok=True)
        for fid, k in sorted(self.known.items()):
            log(f"KNOWN-FINDING: property={self.pid} {fid}: {k['what']} ({k['count']} occurrence(s) in this run)")
        for d in self.drift:
            log(f"MODEL-DRIFT: property={self.pid} {d}")
        paths = []
        for n, v in enumerate(self.violations[:20]):
            path = os.path.join(OUT, "replay", f"{self.pid}-{n}.json")
            with open(path, "w") as f:
                json.dump({"prop": self.pid, "seed": seed(), "tier": self.tier, **v}, f, indent=1)
            paths.append(path)
            log(f"VIOLATION property={self.pid} replay={path}")
            log(f"  reason: {v['reason']}")
        cov = dict(self.cov)
        if not cov["samples"]:
            cov["samples"] = ["(no sample recorded)"]
        cov["known_findings_seen"] = {k: v["count"] for k, v in self.known.items()}
        cov["model_drift"] = self.drift
        cov["notes"] = self.notes
        ev = {"property_id": self.pid, "tier": self.tier, "seed": seed(), "level": self.level,
              "coverage": cov, "assumptions": self.assumptions, "wall_s": round(time.time() - self.t0, 1),
              "violations": len(self.violations)}
        with open(os.path.join(evdir, f"{self.pid}.json"), "w") as f:
            json.dump(ev, f, indent=1)
        log(f"{self.pid} [{self.tier}] states={cov['states']} transitions={cov['transitions']} "
            f"replayed={cov['traces_validated_against_impl']} violations={len(self.violations)} "
            f"wall={ev['wall_s']}s")
        return 1 if self.violations else 0


def cps(s):
    return [ord(c) for c in s]


def uncps(a):
    try:
        return "".join(chr(c) for c in a)
    except Exception:
        return repr(a)
