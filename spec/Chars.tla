---------------------------- MODULE Chars ----------------------------
(* Texts are sequences of Unicode code points.  Character classes as documented for exmex:     *)
(* identifiers are [a-zA-Zα-ωΑ-Ω_][a-zA-Zα-ωΑ-Ω_0-9]*, numbers are digits with at most one dot. *)
EXTENDS Integers, Sequences

SP == 32   LP == 40   RP == 41   COMMA == 44   DOT == 46   LB == 123   RB == 125

IsDigit(c)  == c \in 48..57
IsLetter(c) == \/ c \in 65..90 \/ c \in 97..122 \/ c = 95
               \/ c \in 945..969      \* α-ω
               \/ c \in 913..937      \* Α-Ω
IsIdChar(c) == IsLetter(c) \/ IsDigit(c)

\* s is an identifier: ^[L]+[L0-9]*$
IsIdent(s) == Len(s) > 0 /\ IsLetter(s[1]) /\ \A j \in 2..Len(s) : IsIdChar(s[j])

\* Rust's str order is byte-wise on UTF-8, which coincides with lexicographic order on code points.
RECURSIVE LexLess(_, _, _)
LexLess(a, b, j) ==
  IF j > Len(a) THEN j <= Len(b)
  ELSE IF j > Len(b) THEN FALSE
  ELSE IF a[j] # b[j] THEN a[j] < b[j]
  ELSE LexLess(a, b, j + 1)
StrLess(a, b) == LexLess(a, b, 1)
StrLeq(a, b) == a = b \/ StrLess(a, b)

\* txt[i..] starts with name
StartsWithAt(txt, i, name) ==
  /\ i + Len(name) - 1 <= Len(txt)
  /\ \A j \in 1..Len(name) : txt[i + j - 1] = name[j]

\* length of the maximal run of identifier characters / of digits-or-dots / of spaces starting at i
RECURSIVE IdRun(_, _)
IdRun(txt, i) == IF i <= Len(txt) /\ IsIdChar(txt[i]) THEN 1 + IdRun(txt, i + 1) ELSE 0
RECURSIVE NumRun(_, _)
NumRun(txt, i) == IF i <= Len(txt) /\ (IsDigit(txt[i]) \/ txt[i] = DOT) THEN 1 + NumRun(txt, i + 1) ELSE 0
RECURSIVE CountDots(_, _, _)
CountDots(txt, i, n) == IF n = 0 THEN 0 ELSE (IF txt[i] = DOT THEN 1 ELSE 0) + CountDots(txt, i + 1, n - 1)
\* index of the first RB at or after i, 0 if none
RECURSIVE FindRB(_, _)
FindRB(txt, i) == IF i > Len(txt) THEN 0 ELSE IF txt[i] = RB THEN i ELSE FindRB(txt, i + 1)

Sub(txt, i, n) == SubSeq(txt, i, i + n - 1)

\* sorted (ascending by StrLess) duplicate-free sequence of the names in set S
\* (insertion sort: quadratic in the number of names; selecting the minimum with CHOOSE was cubic and took minutes on
\*  expressions with 200 variables)
RECURSIVE InsertName(_, _, _)
InsertName(x, s, k) == IF k > Len(s) THEN Append(s, x)
                       ELSE IF StrLeq(x, s[k]) THEN SubSeq(s, 1, k - 1) \o <<x>> \o SubSeq(s, k, Len(s))
                       ELSE InsertName(x, s, k + 1)
RECURSIVE SortNames(_)
SortNames(S) ==
  IF S = {} THEN <<>>
  ELSE LET x == CHOOSE y \in S : TRUE IN InsertName(x, SortNames(S \ {x}), 1)

IsSortedNames(s) == \A j \in 1..(Len(s) - 1) : StrLess(s[j], s[j + 1])
=============================================================================
