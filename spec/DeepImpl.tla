---------------------------- MODULE DeepImpl ----------------------------
(* Implementation-shaped model of src/expression/deep.rs (and the conversions in flat.rs):              *)
(*   DMake     = detail::make_expression / process_unary                                                *)
(*   DNew      = DeepEx::new  (count check + compile)                                                   *)
(*   DCompile  = DeepEx::compile (lift_nodes, folding with the decline mask, unary on a single number)  *)
(*   DOrder    = prioritized_indices                                                                     *)
(*   DEval     = eval_relaxed                                                                            *)
(*   Flatten   = flatten_vecs + from_deepex,  Deepen = flatex_to_deepex                                  *)
(*   Unparse   = unparse_raw                                                                             *)
(* A deep expression is [nodes, ops, un] with nodes [k |-> "num", val] | [k |-> "var", v] | [k |-> "expr", e], *)
(* ops [o, prio, comm], un a sequence of operator ids (first = applied last).                            *)
(* FoldRule = "mask"   : decline mask of the pinned snapshot (defect F2: not propagated across equal priority) *)
(* FoldRule = "maskeq" : first repair candidate - also propagate across equal priority unless same commutative   *)
(*                       operator; refuted by `x*2+3+4 mn 5` (found by the random traces, 5 operands)            *)
(* FoldRule = "local"  : two numbers are folded iff they really are the operands of the operator, decided from   *)
(*                       the operators still standing on both sides (code after the fix of F2)                   *)
EXTENDS FlatImpl
CONSTANT FoldRule

DNum(val) == [k |-> "num", val |-> val]
DVar(v)   == [k |-> "var", v |-> v]
DExpr(e)  == [k |-> "expr", e |-> e]
DOp(T, o) == [o |-> o, prio |-> T[o].prio, comm |-> T[o].comm]
EmptyDeep == [nodes |-> <<>>, ops |-> <<>>, un |-> <<>>]

\* ---- prioritized_indices ----------------------------------------------------------------------------
DKey(e, j) ==
  LET l    == LeftRun(e.ops, j, j - 1)
      bump == /\ e.ops[j].comm /\ e.nodes[j].k = "num" /\ e.nodes[j + 1].k = "num"
              /\ (BumpGuard => (l = 0 \/ e.ops[l].prio < e.ops[j].prio \/ e.ops[l].o = e.ops[j].o))
  IN e.ops[j].prio * 10 + (IF bump THEN 5 ELSE 0)
DOrder(e) ==
  LET n == Len(e.ops)
      key == [j \in 1..n |-> DKey(e, j)]
      before(a, b) == key[a] > key[b] \/ (key[a] = key[b] /\ a < b)
  IN [p \in 1..n |-> CHOOSE j \in 1..n : Cardinality({k \in 1..n : before(k, j)}) = p - 1]

\* ---- lift_nodes ---------------------------------------------------------------------------------------
Single(e) == Len(e.nodes) = 1 /\ Len(e.un) = 0
RECURSIVE Lift(_)
LiftNode(nd) ==
  IF nd.k = "expr" /\ Single(nd.e)
  THEN LET c == nd.e.nodes[1] IN
       IF c.k \in {"num", "var"} THEN c
       ELSE LET d == Lift(c.e) IN
            IF Single(d) THEN DExpr(d)
            ELSE DExpr([nd.e EXCEPT !.nodes = <<DExpr(d)>>])     \* e_deeper was lifted in place
  ELSE nd
Lift(e) ==
  IF Single(e)
  THEN (IF e.nodes[1].k = "expr" THEN e.nodes[1].e ELSE e)
  ELSE [e EXCEPT !.nodes = [j \in 1..Len(e.nodes) |-> LiftNode(e.nodes[j])]]

\* ---- compile: folding -----------------------------------------------------------------------------------
(* State of the loop: nodes, dec (already_declined), cur (the operators still standing between the      *)
(* current nodes: the code keeps only their priorities, the fix also their identity), inds, used.       *)
RECURSIVE DCompLoop(_, _, _, _, _, _, _)
DCompLoop(e, ord, i, nodes, dec, cur, st) ==
  \* st = [inds, used, tr]; tr: the folds as the hook reports them, <<operator index, node index>> (1-based, this level)
  IF i > Len(ord) THEN [nodes |-> nodes, used |-> st.used, tr |-> st.tr]
  ELSE LET b == ord[i]
           k == st.inds[i]
           folded == [nodes |-> RemoveAt([nodes EXCEPT ![k] = DNum(Bin(e.ops[b].o, nodes[k].val, nodes[k + 1].val))], k + 1),
                      dec   |-> RemoveAt(dec, k + 1),
                      cur   |-> RemoveAt(cur, k),
                      st    |-> [inds |-> [j \in 1..Len(st.inds) |-> IF st.inds[j] > k THEN st.inds[j] - 1 ELSE st.inds[j]],
                                 used |-> st.used \cup {b}, tr |-> Append(st.tr, <<b, k>>)]]
       IN IF k < 1 \/ k + 1 > Len(nodes) THEN [nodes |-> nodes, used |-> st.used, tr |-> st.tr, panic |-> TRUE]
          ELSE IF nodes[k].k = "num" /\ nodes[k + 1].k = "num"
          THEN IF FoldRule = "local"
               THEN (* fold iff the two numbers really are the operands of this operator: the operator standing on the
                       left is executed later (lower priority) or is the same commutative operator, the operator
                       standing on the right is not executed earlier (not a higher priority) *)
                    LET leftOk  == k = 1 \/ cur[k - 1].prio < cur[k].prio \/ (cur[k - 1].o = cur[k].o /\ cur[k].comm)
                        rightOk == k = Len(cur) \/ cur[k + 1].prio <= cur[k].prio
                    IN IF leftOk /\ rightOk
                       THEN DCompLoop(e, ord, i + 1, folded.nodes, folded.dec, folded.cur, folded.st)
                       ELSE DCompLoop(e, ord, i + 1, nodes, dec, cur, st)
               ELSE IF ~dec[k] /\ ~dec[k + 1]
               THEN DCompLoop(e, ord, i + 1, folded.nodes, folded.dec, folded.cur, folded.st)
               ELSE IF k > 1 /\ k < Len(cur)
               THEN LET d1 == IF dec[k + 1] /\ cur[k + 1].prio > cur[k].prio THEN [dec EXCEPT ![k] = TRUE] ELSE dec
                        sameAC == cur[k].o = cur[k + 1].o /\ cur[k].comm
                        d2 == IF d1[k] /\ ( \/ cur[k].prio > cur[k + 1].prio
                                           \/ (FoldRule = "maskeq" /\ cur[k].prio = cur[k + 1].prio /\ ~sameAC) )
                              THEN [d1 EXCEPT ![k + 1] = TRUE] ELSE d1
                    IN DCompLoop(e, ord, i + 1, nodes, d2, cur, st)
               ELSE DCompLoop(e, ord, i + 1, nodes, dec, cur, st)
          ELSE DCompLoop(e, ord, i + 1, nodes, [dec EXCEPT ![k] = TRUE, ![k + 1] = TRUE], cur, st)

\* [e |-> compiled expression, tr |-> folds of this compile() call]
DCompileTr(e0) ==
  LET e == Lift(e0) IN
  IF Len(e.nodes) = 0 THEN [e |-> e, tr |-> <<>>]
  ELSE
  LET ord == DOrder(e)
      c   == DCompLoop(e, ord, 1, e.nodes, [j \in 1..Len(e.nodes) |-> FALSE], e.ops, [inds |-> ord, used |-> {}, tr |-> <<>>])
      ops == Keep(e.ops, c.used, 1)
  IN [tr |-> c.tr,
      e  |-> IF "panic" \in DOMAIN c THEN e @@ [panic |-> TRUE]
             ELSE IF Len(c.nodes) = 1 /\ c.nodes[1].k = "num"
                  THEN [nodes |-> <<DNum(ApplyUn(e.un, c.nodes[1].val))>>, ops |-> ops, un |-> <<>>]
                  ELSE [nodes |-> c.nodes, ops |-> ops, un |-> e.un]]
DCompile(e0) == DCompileTr(e0).e

\* DeepEx::new
\* the result carries the folds of its compile() call in the field tr
DNew(nodes, ops, un) ==
  IF Len(nodes) + Len(ops) + Len(un) = 0 THEN [err |-> "none", e |-> EmptyDeep, tr |-> <<>>]
  ELSE IF Len(nodes) # Len(ops) + 1 THEN [err |-> "count", tr |-> <<>>]
  ELSE LET c == DCompileTr([nodes |-> nodes, ops |-> ops, un |-> un]) IN [err |-> "none", e |-> c.e, tr |-> c.tr]

\* ---- parsing -----------------------------------------------------------------------------------------------
\* process_unary: this operator plus all directly following operator tokens that *can* be unary
RECURSIVE UnChainEnd(_, _, _)
UnChainEnd(T, toks, j) == IF j <= Len(toks) /\ toks[j].t = "op" /\ T[toks[j].v].un THEN UnChainEnd(T, toks, j + 1) ELSE j

RECURSIVE DMake(_, _, _, _, _, _, _)
\* returns [err, e, i, tr] : i = index of the first token not consumed, tr = the folds of all compile() calls so far, in
\* the order in which the calls happen (inner levels first)
DMake(T, toks, i, nodes, ops, un, tr) ==
  IF i > Len(toks) THEN LET r == DNew(nodes, ops, un) IN [r EXCEPT !.tr = tr \o r.tr] @@ [i |-> i]
  ELSE LET tk == toks[i] IN
    CASE tk.t = "op" ->
          IF RoleErr(T, toks, i) THEN [err |-> "binary-after-operator", i |-> i, tr |-> tr]
          ELSE IF IsBinAt(T, toks, i) THEN DMake(T, toks, i + 1, nodes, Append(ops, DOp(T, tk.v)), un, tr)
          ELSE IF ~T[tk.v].un THEN [err |-> "no-unary", i |-> i, tr |-> tr]
          ELSE LET j  == UnChainEnd(T, toks, i + 1)       \* token after the chain
                   ch == [q \in 1..(j - i) |-> toks[i + q - 1].v]
               IN IF j > Len(toks) THEN [err |-> "panic-token-index", i |-> i, tr |-> tr]
                  ELSE IF toks[j].t \in {"open", "close"}
                  THEN LET s == DMake(T, toks, j + 1, <<>>, <<>>, ch, <<>>) IN
                       IF s.err # "none" THEN s ELSE DMake(T, toks, s.i, Append(nodes, DExpr(s.e)), ops, un, tr \o s.tr)
                  ELSE IF toks[j].t = "var"
                  THEN LET s == DNew(<<DVar(toks[j].v)>>, <<>>, ch) IN
                       DMake(T, toks, j + 1, Append(nodes, DExpr(s.e)), ops, un, tr \o s.tr)
                  ELSE IF toks[j].t \in {"num", "const"}
                  THEN DMake(T, toks, j + 1, Append(nodes, DNum(ApplyUn(ch, ValOf(toks[j])))), ops, un, tr)
                  ELSE [err |-> "invalid-token-configuration", i |-> i, tr |-> tr]
      [] tk.t \in {"num", "const"} -> DMake(T, toks, i + 1, Append(nodes, DNum(ValOf(tk))), ops, un, tr)
      [] tk.t = "var" -> DMake(T, toks, i + 1, Append(nodes, DVar(tk.v)), ops, un, tr)
      [] tk.t = "open" ->
          LET s == DMake(T, toks, i + 1, <<>>, <<>>, <<>>, <<>>) IN
          IF s.err # "none" THEN s ELSE DMake(T, toks, s.i, Append(nodes, DExpr(s.e)), ops, un, tr \o s.tr)
      [] tk.t = "close" -> LET r == DNew(nodes, ops, un) IN [r EXCEPT !.tr = tr \o r.tr] @@ [i |-> i + 1]
      [] OTHER -> [err |-> "panic-unknown-token", i |-> i, tr |-> tr]

DParse(T, toks) == DMake(T, toks, 1, <<>>, <<>>, <<>>, <<>>)

\* ---- evaluation -----------------------------------------------------------------------------------------------
RECURSIVE DEval(_)
DNodeVal(nd) == CASE nd.k = "num" -> nd.val [] nd.k = "var" -> Var(nd.v) [] nd.k = "expr" -> DEval(nd.e)
DEval(e) ==
  LET vals == [j \in 1..Len(e.nodes) |-> DNodeVal(e.nodes[j])]
      f    == [ops |-> [j \in 1..Len(e.ops) |-> e.ops[j] @@ [un |-> <<>>]], prio |-> DOrder(e)]
  IN ApplyUn(e.un, Reduce(f, 1, vals, [j \in 1..Len(vals) |-> TRUE]))

DeepEvalToks(T, toks) ==
  LET r == DParse(T, toks) IN IF r.err # "none" THEN [k |-> "err", why |-> r.err] ELSE DEval(r.e)

\* ---- flatten_vecs / from_deepex --------------------------------------------------------------------------------
RECURSIVE FlattenVecs(_, _)
FlattenVecs(e, off) ==
  \* returns [nodes, ops]
  LET RECURSIVE Go(_, _, _)
      Go(j, nodes, ops) ==
        IF j > Len(e.nodes) THEN [nodes |-> nodes, ops |-> ops]
        ELSE LET nd == e.nodes[j]
                 sub == IF nd.k = "expr" THEN FlattenVecs(nd.e, off + 100)
                        ELSE [nodes |-> <<[kind |-> IF nd.k = "num" THEN "num" ELSE "var",
                                           val |-> IF nd.k = "num" THEN nd.val ELSE Var(nd.v), un |-> <<>>]>>,
                              ops |-> <<>>]
                 ops2 == ops \o sub.ops \o
                         (IF j <= Len(e.ops) THEN <<[o |-> e.ops[j].o, prio |-> e.ops[j].prio + off,
                                                    comm |-> e.ops[j].comm, un |-> <<>>]>> ELSE <<>>)
             IN Go(j + 1, nodes \o sub.nodes, ops2)
      r == Go(1, <<>>, <<>>)
  IN IF Len(e.un) = 0 THEN r
     ELSE IF Len(r.ops) > 0
     THEN \* rev().min_by_key(prio): the first minimum of the reversed iteration = the LAST lowest-priority operator
          LET lo == CHOOSE j \in 1..Len(r.ops) : \A q \in 1..Len(r.ops) :
                       r.ops[j].prio < r.ops[q].prio \/ (r.ops[j].prio = r.ops[q].prio /\ j >= q)
          IN [r EXCEPT !.ops[lo].un = e.un \o @]
     ELSE [r EXCEPT !.nodes[1].un = e.un \o @]
Flatten(e) == LET r == FlattenVecs(e, 0) IN [err |-> "none"] @@ MkFlat(r.nodes, r.ops)

\* ---- flatex_to_deepex --------------------------------------------------------------------------------------------
ConvertNode(nd) ==
  LET base == IF nd.kind = "num" THEN DNum(nd.val) ELSE DVar(nd.val.v) IN
  IF Len(nd.un) > 0 THEN DExpr(DNew(<<base>>, <<>>, nd.un).e) ELSE base
RECURSIVE DeepenLoop(_, _, _, _, _)
DeepenLoop(T, f, p, dn, alive) ==
  IF p > Len(f.prio) THEN dn
  ELSE LET idx == f.prio[p]
           n1 == CHOOSE j \in 1..idx : alive[j] /\ \A k \in (j + 1)..idx : ~alive[k]
           n2 == CHOOSE j \in (idx + 1)..Len(dn) : alive[j] /\ \A k \in (idx + 1)..(j - 1) : ~alive[k]
           op == [o |-> f.ops[idx].o, prio |-> T[f.ops[idx].o].prio, comm |-> f.ops[idx].comm]
           ex == DNew(<<dn[n1], dn[n2]>>, <<op>>, f.ops[idx].un).e
       IN DeepenLoop(T, f, p + 1, [dn EXCEPT ![n1] = DExpr(ex)], [alive EXCEPT ![n2] = FALSE])
Deepen(T, f) ==
  LET dn0 == [j \in 1..Len(f.nodes) |-> ConvertNode(f.nodes[j])]
      dn  == DeepenLoop(T, f, 1, dn0, [j \in 1..Len(f.nodes) |-> TRUE])
      top == DNew(<<dn[1]>>, <<>>, <<>>).e
  IN DCompile(top)          \* flatex_to_deepex calls compile() once more after new()
\* ---- unparse_raw ------------------------------------------------------------------------------------------------
\* char::is_alphanumeric() || '_'  (every non-ASCII code point of the tables used here is a letter)
IsNameChar(c) == IsLetter(c) \/ IsDigit(c) \/ c > 127
RECURSIVE Unparse(_, _, _, _)
(* Text of a deep expression.  fold: spelling of a number node that is not a plain literal (the data type's Debug);   *)
(* blanks = TRUE is the code after the fix of F7 (an operator name that starts/ends like an identifier gets a blank), *)
(* blanks = FALSE the pinned snapshot.                                                                                *)
Unparse(T, e, fold, blanks) ==
  LET NodeStr(nd) == CASE nd.k = "num" -> (IF nd.val.k = "num" THEN nd.val.v ELSE fold)
                       [] nd.k = "var" -> <<LB>> \o nd.v \o <<RB>>
                       [] nd.k = "expr" -> IF Len(nd.e.un) = 0 THEN <<LP>> \o Unparse(T, nd.e, fold, blanks) \o <<RP>>
                                           ELSE Unparse(T, nd.e, fold, blanks)
      OpStr(o) == LET nm == T[o].name IN
                  (IF blanks /\ IsNameChar(nm[1]) THEN <<SP>> ELSE <<>>) \o nm \o (IF blanks /\ IsNameChar(nm[Len(nm)]) THEN <<SP>> ELSE <<>>)
      RECURSIVE Join(_)
      Join(j) == IF j > Len(e.nodes) THEN <<>>
                 ELSE (IF j > 1 THEN OpStr(e.ops[j - 1].o) ELSE <<>>) \o NodeStr(e.nodes[j]) \o Join(j + 1)
      RECURSIVE UnPre(_)
      UnPre(j) == IF j > Len(e.un) THEN <<>> ELSE T[e.un[j]].name \o <<LP>> \o UnPre(j + 1)
  IN IF Len(e.un) = 0 THEN Join(1) ELSE UnPre(1) \o Join(1) \o [j \in 1..Len(e.un) |-> RP]
\* the same expression with every number node that is not a plain literal replaced by the literal `lit`
RECURSIVE Respell(_, _)
Respell(e, lit) ==
  [e EXCEPT !.nodes = [j \in 1..Len(e.nodes) |->
      CASE e.nodes[j].k = "num" -> (IF e.nodes[j].val.k = "num" THEN e.nodes[j] ELSE DNum(Num(lit)))
        [] e.nodes[j].k = "expr" -> [e.nodes[j] EXCEPT !.e = Respell(e.nodes[j].e, lit)]
        [] OTHER -> e.nodes[j]]]

=============================================================================
