---------------------------- MODULE DiffTables ----------------------------
(* The differentiable part of the default float operator table with the meaning (`sem`) of every name.      *)
EXTENDS Integers, Sequences
(* sem = meaning as binary operator, usem = meaning as unary operator ("" if the operator has no such role) *)
OB(nm, p, c, s)    == [name |-> nm, bin |-> TRUE,  un |-> FALSE, const |-> FALSE, prio |-> p, comm |-> c, sem |-> s, usem |-> ""]
OD(nm, p, c, s, u) == [name |-> nm, bin |-> TRUE,  un |-> TRUE,  const |-> FALSE, prio |-> p, comm |-> c, sem |-> s, usem |-> u]
OU(nm, s)          == [name |-> nm, bin |-> FALSE, un |-> TRUE,  const |-> FALSE, prio |-> 0, comm |-> FALSE, sem |-> "", usem |-> s]
TDiff == << OB(<<94>>, 4, FALSE, "pow"), OB(<<42>>, 2, TRUE, "mul"), OB(<<47>>, 3, FALSE, "div"),
            OD(<<43>>, 0, TRUE, "add", "pos"), OD(<<45>>, 1, FALSE, "sub", "neg"),
            OU(<<115, 105, 110>>, "sin"), OU(<<99, 111, 115>>, "cos"), OU(<<116, 97, 110>>, "tan"),
            OU(<<97, 115, 105, 110>>, "asin"), OU(<<97, 99, 111, 115>>, "acos"), OU(<<97, 116, 97, 110>>, "atan"),
            OU(<<115, 105, 110, 104>>, "sinh"), OU(<<99, 111, 115, 104>>, "cosh"), OU(<<116, 97, 110, 104>>, "tanh"),
            OU(<<97, 115, 105, 110, 104>>, "asinh"), OU(<<97, 99, 111, 115, 104>>, "acosh"), OU(<<97, 116, 97, 110, 104>>, "atanh"),
            OU(<<101, 120, 112>>, "exp"), OU(<<115, 113, 114, 116>>, "sqrt"), OU(<<108, 110>>, "ln"),
            OU(<<108, 111, 103, 50>>, "log2"), OU(<<108, 111, 103, 49, 48>>, "log10"), OU(<<108, 111, 103>>, "log"),
            OU(<<97, 98, 115>>, "abs"), OU(<<102, 108, 111, 111, 114>>, "floor") >>
=============================================================================
