---------------------------- MODULE Exmex ----------------------------
(* The session machine: what a user of exmex holds is a pool of immutable expressions; every public           *)
(* operation appends one entry (or fails) and never changes an existing one.                                   *)
(*   entry = [ok |-> TRUE, form |-> "flat"|"deep", vars |-> sorted names, den |-> tree]  |  [ok |-> FALSE]     *)
(* Effect(T, pool, step) is the abstract effect of one API call:                                               *)
(*   [r |-> "entry", e |-> entry]            the call must succeed with this variable list and a value equal    *)
(*                                           to e.den as a function (field semantics, Field.tla)                *)
(*   [r |-> "deriv", e |-> entry]            the call must succeed with e.vars and a value equal to e.den as a  *)
(*                                           truncated power series along every variable (Jets.tla); e.den is   *)
(*                                           the derivative by the rule transcription PartialImpl.D, which      *)
(*                                           MC_Diff shows to be the mathematical derivative                    *)
(*   [r |-> "err", early |-> b]              the call must fail (early: before any differentiation work)        *)
(*   [r |-> "free"]                          not constrained (script refers to a failed entry, order zero with   *)
(*                                           an invalid index, ...)                                             *)
EXTENDS PartialImpl

Entry(form, vars, den) == [ok |-> TRUE, form |-> form, vars |-> vars, den |-> den]
Failed == [ok |-> FALSE]
SortedUnion(a, b) == SortNames(Range(a) \cup Range(b))

OpByName(T, nm, role) ==           \* 0 if the table has no such operator with that role
  LET S == {o \in 1..Len(T) : T[o].name = nm /\ (IF role = "bin" THEN T[o].bin ELSE T[o].un)} IN
  IF S = {} THEN 0 ELSE CHOOSE o \in S : TRUE
StdBin == [add |-> <<43>>, sub |-> <<45>>, mul |-> <<42>>, div |-> <<47>>, pow |-> <<94>>]
StdUnName(op) ==
  CASE op = "neg" -> <<45>> [] op = "abs" -> <<97, 98, 115>> [] op = "sin" -> <<115, 105, 110>> [] op = "cos" -> <<99, 111, 115>>
    [] op = "tan" -> <<116, 97, 110>> [] op = "sinh" -> <<115, 105, 110, 104>> [] op = "cosh" -> <<99, 111, 115, 104>>
    [] op = "tanh" -> <<116, 97, 110, 104>> [] op = "asin" -> <<97, 115, 105, 110>> [] op = "acos" -> <<97, 99, 111, 115>>
    [] op = "atan" -> <<97, 116, 97, 110>> [] op = "signum" -> <<115, 105, 103, 110, 117, 109>> [] op = "log" -> <<108, 111, 103>>
    [] op = "log2" -> <<108, 111, 103, 50>> [] op = "log10" -> <<108, 111, 103, 49, 48>> [] op = "ln" -> <<108, 110>>
    [] op = "round" -> <<114, 111, 117, 110, 100>> [] op = "floor" -> <<102, 108, 111, 111, 114>> [] op = "ceil" -> <<99, 101, 105, 108>>
    [] op = "exp" -> <<101, 120, 112>> [] op = "sqrt" -> <<115, 113, 114, 116>> [] op = "cbrt" -> <<99, 98, 114, 116>>
    [] op = "fract" -> <<102, 114, 97, 99, 116>> [] op = "trunc" -> <<116, 114, 117, 110, 99>> [] OTHER -> <<>>

\* simultaneous substitution: m = sequence of <<name, tree>>; replacements are not re-substituted
RECURSIVE Subst(_, _)
Lookup(m, nm) == LET S == {j \in 1..Len(m) : m[j][1] = nm} IN IF S = {} THEN 0 ELSE CHOOSE j \in S : \A q \in S : j <= q
Subst(t, m) ==
  CASE t.k = "var" -> LET j == Lookup(m, t.v) IN IF j = 0 THEN t ELSE m[j][2]
    [] t.k = "un"  -> Un(t.o, Subst(t.a, m))
    [] t.k = "bin" -> Bin(t.o, Subst(t.l, m), Subst(t.r, m))
    [] OTHER -> t
\* is the tree a literal zero? (for the error of pow(0, 0))
IsLitZero(T, t) == t.k = "num" /\ NumOk(t) /\ NumVal(t) = 0
\* pow looks at its operands after constant folding and after the neutral-element shortcuts, so an operand whose
\* unsimplified form is not a literal may have become the number zero (-0, 1-1, x*0, sin(0); 0.1+0.2-0.3 is zero in the
\* field but not in floats).  The property excludes powers with base zero and non-positive exponent, hence a power whose
\* operands both may have become zero is not constrained.  ZInfo over-approximates: num = may be held as a plain number,
\* zero = may be the number zero, fn = contains an operator other than + - * / ^ and signs.
RECURSIVE ZInfo(_, _)
ZInfo(T, t) ==
  CASE t.k = "num" -> [num |-> TRUE, zero |-> ~NumOk(t) \/ NumVal(t) = 0, fn |-> FALSE]
    [] t.k = "un" -> LET a == ZInfo(T, t.a) IN
                     IF T[t.o].usem \in {"neg", "pos"} THEN a ELSE [num |-> a.num, zero |-> a.num, fn |-> TRUE]
    [] t.k = "bin" ->
         LET l == ZInfo(T, t.l) r == ZInfo(T, t.r) s == T[t.o].sem
             fn == l.fn \/ r.fn \/ s \notin {"add", "sub", "mul", "div", "pow"}
             num == (l.num /\ r.num) \/ (s = "mul" /\ (l.zero \/ r.zero)) \/ (s = "div" /\ l.zero) \/ (s = "pow" /\ (l.zero \/ r.zero))
         IN [num |-> num, fn |-> fn,
             zero |-> num /\ (fn \/ LET b == FieldEval(T, t, [names |-> <<>>, vals |-> <<>>]) IN ~b.ok \/ b.v = 0)]
    [] t.k = "const" -> [num |-> TRUE, zero |-> FALSE, fn |-> FALSE]
    [] OTHER -> [num |-> FALSE, zero |-> FALSE, fn |-> FALSE]
MaybeConstZero(T, t) == ZInfo(T, t).zero

RECURSIVE DIter(_, _, _, _)
\* derivative along the index sequence ks (0-based indices into vars)
DIter(T, e, vars, ks) ==
  IF Len(ks) = 0 THEN [err |-> FALSE, t |-> e]
  ELSE LET d == D(T, e, vars[ks[1] + 1]) IN IF d.err THEN d ELSE DIter(T, d.t, vars, Tail(ks))
RECURSIVE Ruleless(_, _)
\* an operator without differentiation rule applied to an operand that depends on a variable
Ruleless(T, t) ==
  CASE t.k = "un"  -> (T[t.o].usem \notin HasOuter /\ TreeVars(t.a) # {}) \/ Ruleless(T, t.a)
    [] t.k = "bin" -> (T[t.o].sem \notin {"add", "sub", "mul", "div", "pow"} /\ TreeVars(t) # {}) \/ Ruleless(T, t.l) \/ Ruleless(T, t.r)
    [] OTHER -> FALSE

Effect(T, pool, st) ==
  LET act == st.act
      okI == "i" \in DOMAIN st /\ st.i >= 1 /\ st.i <= Len(pool) /\ pool[st.i].ok
      okJ == "j" \in DOMAIN st /\ st.j >= 1 /\ st.j <= Len(pool) /\ pool[st.j].ok
      a == pool[st.i]
  IN
  IF ~okI THEN [r |-> "free"]
  ELSE CASE act = "to_deep" -> [r |-> "entry", e |-> Entry("deep", a.vars, a.den)]
    [] act = "to_flat" -> [r |-> "entry", e |-> Entry("flat", a.vars, a.den)]
    [] act = "op_un" ->
         LET o == OpByName(T, st.name, "un") IN
         IF o = 0 THEN [r |-> "err", early |-> FALSE] ELSE [r |-> "entry", e |-> Entry(a.form, a.vars, Un(o, a.den))]
    [] act = "op_bin" ->
         IF ~okJ THEN [r |-> "free"]
         ELSE LET o == OpByName(T, st.name, "bin") b == pool[st.j] IN
              IF o = 0 THEN [r |-> "err", early |-> FALSE]
              ELSE [r |-> "entry", e |-> Entry(a.form, SortedUnion(a.vars, b.vars), Bin(o, a.den, b.den))]
    [] act = "std" ->
         IF st.op \in {"add", "sub", "mul", "div", "pow"} THEN
           IF ~okJ THEN [r |-> "free"]
           ELSE LET o == OpByName(T, StdBin[st.op], "bin") b == pool[st.j] IN
                IF o = 0 THEN [r |-> "err", early |-> FALSE]
                ELSE IF st.op = "pow" /\ IsLitZero(T, a.den) /\ IsLitZero(T, b.den) THEN [r |-> "err", early |-> FALSE]
                ELSE IF st.op = "pow" /\ MaybeConstZero(T, a.den) /\ MaybeConstZero(T, b.den) THEN [r |-> "free"]
                ELSE [r |-> "entry", e |-> Entry(a.form, SortedUnion(a.vars, b.vars), Bin(o, a.den, b.den))]
         ELSE LET o == OpByName(T, StdUnName(st.op), "un") IN
              IF o = 0 THEN [r |-> "err", early |-> FALSE] ELSE [r |-> "entry", e |-> Entry(a.form, a.vars, Un(o, a.den))]
    [] act = "subs" ->
         LET used == {q \in 1..Len(st.map) : st.map[q][1] \in Range(a.vars)}
             refsOk == \A q \in used : st.map[q][2] >= 1 /\ st.map[q][2] <= Len(pool) /\ pool[st.map[q][2]].ok
         IN IF ~refsOk THEN [r |-> "free"]
            ELSE LET m == [q \in 1..Len(st.map) |-> <<st.map[q][1], IF q \in used THEN pool[st.map[q][2]].den ELSE Var(st.map[q][1])>>]
                     firstOf(nm) == Lookup(st.map, nm)
                     untouched == {nm \in Range(a.vars) : firstOf(nm) = 0}
                     repl == UNION {Range(pool[st.map[firstOf(nm)][2]].vars) : nm \in Range(a.vars) \ untouched}
                 IN \* a listed variable that does not occur any more (e.g. after differentiation) may be dropped: vlo <= vars <= e.vars
                    [r |-> "entry", e |-> Entry(a.form, SortNames(untouched \cup repl), Subst(a.den, m)),
                     vlo |-> TreeVars(Subst(a.den, m))]
    [] act \in {"partial", "partial_nth", "partial_iter"} ->
         LET ks == CASE act = "partial" -> <<st.k>>
                     [] act = "partial_nth" -> [q \in 1..st.n |-> st.k]
                     [] OTHER -> st.ks
         IN IF \E q \in 1..Len(ks) : ks[q] >= Len(a.vars) THEN [r |-> "err", early |-> TRUE]     \* index check before any work
            ELSE IF Len(ks) = 0 THEN [r |-> "entry", e |-> Entry(a.form, a.vars, a.den)]              \* order zero = identity
            ELSE LET d == DIter(T, a.den, a.vars, ks) IN
                 IF d.err THEN (IF Ruleless(T, a.den) THEN [r |-> "err", early |-> FALSE] ELSE [r |-> "free"])
                 ELSE [r |-> "deriv", e |-> Entry(a.form, a.vars, d.t)]
    [] act = "partial_relaxed" ->        \* MissingOpMode: st.mode \in {"error", "per_operand", "none"}
         IF st.k >= Len(a.vars) THEN [r |-> "err", early |-> TRUE]
         ELSE LET d == DM(T, a.den, a.vars[st.k + 1], st.mode) IN
              IF d.err THEN (IF st.mode = "error" /\ Ruleless(T, a.den) THEN [r |-> "err", early |-> FALSE] ELSE [r |-> "free"])
              ELSE [r |-> "entry", e |-> Entry(a.form, a.vars, d.t)]
    [] act \in {"reparse", "serde"} -> [r |-> "entry", e |-> Entry(IF act = "serde" THEN "flat" ELSE a.form, a.vars, a.den)]
    [] OTHER -> [r |-> "free"]
=============================================================================
