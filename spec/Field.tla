---------------------------- MODULE Field ----------------------------
(* Exact arithmetic in the prime field GF(32749) (P*P < 2^31, so TLC's integers never overflow) and the     *)
(* evaluation of expression trees in "a field with free function symbols": + - * / and integer powers are     *)
(* the field operations, every other operator is an uninterpreted function of its evaluated arguments.        *)
(* Exactly the algebraic identities hold in this model, so every valid simplification (x+0, x*1, x*0, 0/x,   *)
(* x/1, x^0, x^1, constant folding) is accepted and an invalid one is rejected (with overwhelming             *)
(* probability over the evaluation points).                                                                    *)
(* Operator meaning comes from the fields `sem` (as binary operator: "add", "sub", "mul", "div", "pow", ...)  *)
(* and `usem` (as unary operator: "neg", "pos", "sin", ...) of the table entry.  Numbers are either literal texts (code points, from the reference    *)
(* parser) or exact rationals [n, d] (from the recorder's symbolic data type).                                  *)
EXTENDS Integers, Sequences, FiniteSets, TLC

P == 32749
M(x) == x % P
FAdd(a, b) == M(a + b)
FSub(a, b) == M(a - b + P)
FMul(a, b) == M(a * b)
RECURSIVE FPow(_, _)
FPow(a, n) == IF n = 0 THEN 1 ELSE IF n % 2 = 0 THEN LET h == FPow(a, n \div 2) IN FMul(h, h) ELSE FMul(a, FPow(a, n - 1))
FInv(a) == FPow(a, P - 2)           \* a # 0
FNeg(a) == FSub(0, a)
\* reduction of a possibly negative integer
FInt(n) == IF n >= 0 THEN M(n) ELSE FNeg(M(-n))
\* rational n/d; d must not be divisible by P (checked by the callers through RatOk)
RatOk(n, d) == M(IF d >= 0 THEN d ELSE -d) # 0
FRat(n, d) == FMul(FInt(n), FInv(FInt(d)))

\* ---- literal texts: digits with at most one dot --------------------------------------------------------------
RECURSIVE LitScan(_, _, _, _, _)
\* returns [num, den] in the field: num = all digits as a number mod P, den = 10^(digits after the dot)
LitScan(s, i, num, den, seenDot) ==
  IF i > Len(s) THEN [num |-> num, den |-> den]
  ELSE IF s[i] = 46 THEN LitScan(s, i + 1, num, den, TRUE)
  ELSE LitScan(s, i + 1, FAdd(FMul(num, 10), s[i] - 48), IF seenDot THEN FMul(den, 10) ELSE den, seenDot)
LitVal(s) == LET r == LitScan(s, 1, 0, 1, FALSE) IN FMul(r.num, FInv(r.den))

NumVal(t) == IF "n" \in DOMAIN t THEN FRat(t.n, t.d) ELSE LitVal(t.v)
NumOk(t) == IF "n" \in DOMAIN t THEN (~("big" \in DOMAIN t) /\ RatOk(t.n, t.d)) ELSE TRUE
\* a number node that is a small non-negative integer: its value, else -1
SmallInt(t) ==
  IF t.k # "num" THEN -1
  ELSE IF "n" \in DOMAIN t THEN (IF t.d = 1 /\ t.n >= 0 /\ t.n <= 12 /\ ~("big" \in DOMAIN t) THEN t.n ELSE -1)
  ELSE IF Len(t.v) = 1 /\ t.v[1] \in 48..57 THEN t.v[1] - 48
  ELSE IF Len(t.v) = 3 /\ t.v[1] \in 48..57 /\ t.v[2] = 46 /\ t.v[3] = 48 THEN t.v[1] - 48
  ELSE -1

\* ---- uninterpreted functions: fixed "random" polynomials, asymmetric in their arguments ------------------------
H1(o, x) == M(M(x * x) * 31 + x * 7919 + o * 104729 + 12289)
H2(o, x, y) == M(M(x * x) * 17 + M(y * y) * 29 + M(x * y) * 3 + x * 5003 + y * 7907 + o * 15013 + 271)
\* hash of a name (variables are bound by name)
RECURSIVE NameHash(_, _)
NameHash(s, i) == IF i > Len(s) THEN 7 ELSE M(NameHash(s, i + 1) * 131 + s[i])

(* FieldEval(T, t, env): env = [names |-> Seq(name), vals |-> Seq(field element)]; result [ok, v].            *)
(* ok = FALSE: the point is unusable for this tree (division by zero, power with base zero and an exponent    *)
(* that is not a positive integer, unrepresentable number) - such points are skipped, as the property says.    *)
Good(v) == [ok |-> TRUE, v |-> v]
BadPt == [ok |-> FALSE, v |-> 0]
RECURSIVE IndexOf(_, _, _)
IndexOf(names, nm, i) == IF i > Len(names) THEN 0 ELSE IF names[i] = nm THEN i ELSE IndexOf(names, nm, i + 1)
RECURSIVE FieldEval(_, _, _)
FieldEval(T, t, env) ==
  CASE t.k = "num" -> IF NumOk(t) THEN Good(NumVal(t)) ELSE BadPt
    [] t.k = "var" -> LET j == IndexOf(env.names, t.v, 1) IN IF j = 0 THEN Good(NameHash(t.v, 1)) ELSE Good(env.vals[j])
    [] t.k = "const" -> Good(H1(t.c, 1))
    [] t.k = "un" ->
         LET a == FieldEval(T, t.a, env) s == T[t.o].usem IN
         IF ~a.ok THEN BadPt
         ELSE CASE s = "neg" -> Good(FNeg(a.v)) [] s = "pos" -> Good(a.v) [] OTHER -> Good(H1(t.o, a.v))
    [] t.k = "bin" ->
         LET a == FieldEval(T, t.l, env) b == FieldEval(T, t.r, env) s == T[t.o].sem IN
         IF ~a.ok \/ ~b.ok THEN BadPt
         ELSE CASE s = "add" -> Good(FAdd(a.v, b.v)) [] s = "sub" -> Good(FSub(a.v, b.v)) [] s = "mul" -> Good(FMul(a.v, b.v))
                [] s = "div" -> IF b.v = 0 THEN BadPt ELSE Good(FMul(a.v, FInv(b.v)))
                [] s = "pow" -> \* by the VALUE of the exponent: a small non-negative integer is repeated multiplication
                                IF b.v <= 12 THEN (IF b.v = 0 /\ a.v = 0 THEN BadPt ELSE Good(FPow(a.v, b.v)))
                                ELSE IF a.v = 0 THEN BadPt                     \* base zero, exponent not a small positive integer
                                ELSE IF a.v = 1 THEN Good(1)
                                ELSE Good(H2(t.o, a.v, b.v))
                \* an uninterpreted operator: free, unless the table flags it commutative (= associative and commutative):
                \* then it is interpreted by the AC law x + y + k*x*y with an operator-specific k, so that regrouping
                \* inside one operator is invisible while mixing two different operators is not
                [] OTHER -> IF T[t.o].comm THEN LET k == M(t.o * 911 + 13) IN Good(FAdd(FAdd(a.v, b.v), FMul(k, FMul(a.v, b.v))))
                            ELSE Good(H2(t.o, a.v, b.v))
    [] OTHER -> BadPt

\* evaluation points: variable j of the sorted name list gets the j-th entry of a fixed pseudo-random sequence
PointVal(seed, j) == M(seed * 7561 + j * j * 389 + j * 2311 + 97)
EnvFor(names, seed) == [names |-> names, vals |-> [j \in 1..Len(names) |-> PointVal(seed, j)]]
Seeds == {3, 11, 29}
(* two trees denote the same function over the union of the given variables: equal at every usable point, and  *)
(* at least one point usable for both                                                                           *)
FieldSame(T, a, b, names) ==
  LET res == [s \in Seeds |-> [x |-> FieldEval(T, a, EnvFor(names, s)), y |-> FieldEval(T, b, EnvFor(names, s))]]
      usable == {s \in Seeds : res[s].x.ok /\ res[s].y.ok}
  IN IF usable = {} THEN "inconclusive"
     ELSE IF \A s \in usable : res[s].x.v = res[s].y.v THEN "same" ELSE "different"
=============================================================================
