---------------------------- MODULE FlatImpl ----------------------------
(* Implementation-shaped model of src/expression/flat.rs + src/expression/mod.rs:                       *)
(*   Build   = detail::make_expression   (depth*1000 priorities, unary stack, attach on ')')            *)
(*   Order   = prioritized_indices_flat  (stable sort by prio*10 (+5 for a commutative literal pair))   *)
(*   Reduce  = eval_binary               (tracker abstracted to an alive vector, see Tracker.tla)       *)
(*   Compile = FlatEx::compile           (already_declined mask, index shifting)                        *)
(*   Consume = eval_flatex_consuming_vars (take-or-clone scan)                                          *)
(* Failure states of the code (index out of range, unwrap, assert) are explicit `err` values starting   *)
(* with "panic".                                                                                        *)
(* BumpGuard = TRUE : the commutative bump is taken only if it cannot cross an equal-priority operator  *)
(*                    other than itself and the operator carries no unary (code after the fix of F1)    *)
(* BumpGuard = FALSE: the bump as in the pinned snapshot (defect F1)                                    *)
EXTENDS Ref
CONSTANT BumpGuard

DEPTH_STEP == 1000
PanicErrs == {"panic-token-index", "panic-unknown-token", "panic-compile-index", "no-unary"}

IsUnaryAt(T, toks, j) == toks[j].t = "op" /\ ~IsBinAt(T, toks, j)
\* is_operator_binary returns Err for a binary-only operator right of another operator
RoleErr(T, toks, j) ==
  toks[j].t = "op" /\ T[toks[j].v].bin /\ ~T[toks[j].v].un /\ j > 1 /\ toks[j - 1].t = "op"
\* a unary-role token whose operator has no unary function: op.unary() is Err
NoUnary(T, toks, j) == IsUnaryAt(T, toks, j) /\ ~T[toks[j].v].un

\* iter_subsequent_unaries(e): maximal run of unary-role operator tokens ending at e
RECURSIVE RunStart(_, _, _)
RunStart(T, toks, e) ==
  IF e >= 1 /\ IsUnaryAt(T, toks, e) /\ ~RoleErr(T, toks, e) /\ ~NoUnary(T, toks, e)
  THEN RunStart(T, toks, e - 1) ELSE e + 1
\* [err, un]: err if the run was stopped by an erroneous token
Unaries(T, toks, e) ==
  LET s == RunStart(T, toks, e) IN
  IF s > 1 /\ (RoleErr(T, toks, s - 1) \/ NoUnary(T, toks, s - 1)) THEN [err |-> TRUE, un |-> <<>>]
  ELSE [err |-> FALSE, un |-> [j \in 1..(e - s + 1) |-> toks[s + j - 1].v]]
\* create_node: unary operators directly in front of an operand token
NodeUn(T, toks, i) ==
  IF i > 1 /\ toks[i - 1].t = "op"
  THEN IF RoleErr(T, toks, i - 1) THEN [err |-> TRUE, un |-> <<>>]
       ELSE IF IsUnaryAt(T, toks, i - 1) THEN Unaries(T, toks, i - 1)
       ELSE [err |-> FALSE, un |-> <<>>]
  ELSE [err |-> FALSE, un |-> <<>>]

\* flat_ops.iter().rev().take_while(prio >= depth*1000).min_by(prio): first minimum from the right
RECURSIVE TrailStart(_, _, _)
TrailStart(ops, depth, j) == IF j >= 1 /\ ops[j].prio >= depth * DEPTH_STEP THEN TrailStart(ops, depth, j - 1) ELSE j + 1
LowestTrailing(ops, depth) ==
  LET s == TrailStart(ops, depth, Len(ops)) IN
  IF s > Len(ops) THEN 0
  ELSE CHOOSE j \in s..Len(ops) : \A k \in s..Len(ops) : ops[j].prio < ops[k].prio \/ (ops[j].prio = ops[k].prio /\ j >= k)

St0 == [i |-> 1, depth |-> 0, ust |-> <<>>, nodes |-> <<>>, ops |-> <<>>, err |-> "none"]
ValOf(tk) == CASE tk.t = "num" -> Num(tk.v) [] tk.t = "const" -> Const(tk.v) [] tk.t = "var" -> Var(tk.v)
KindOf(tk) == IF tk.t = "var" THEN "var" ELSE "num"

Step(T, toks, s) ==
  LET tk == toks[s.i] IN
  CASE tk.t = "op" ->
        IF RoleErr(T, toks, s.i) THEN [s EXCEPT !.err = "binary-after-operator"]
        ELSE IF IsBinAt(T, toks, s.i)
        THEN [s EXCEPT !.i = @ + 1,
                       !.ops = Append(@, [o |-> tk.v, prio |-> T[tk.v].prio + s.depth * DEPTH_STEP,
                                          comm |-> T[tk.v].comm, un |-> <<>>])]
        ELSE IF s.i + 1 > Len(toks) THEN [s EXCEPT !.err = "panic-token-index"]   \* parsed_tokens[idx_tkn + 1]
        ELSE IF toks[s.i + 1].t = "close" THEN [s EXCEPT !.err = "unary-before-close"]
        ELSE IF toks[s.i + 1].t = "open" THEN [s EXCEPT !.i = @ + 1, !.ust = Append(@, <<s.i, s.depth>>)]
        ELSE [s EXCEPT !.i = @ + 1]
    [] tk.t \in {"num", "var", "const"} ->
        LET u == NodeUn(T, toks, s.i) IN
        IF u.err THEN [s EXCEPT !.err = "operator-role"]
        ELSE [s EXCEPT !.i = @ + 1, !.nodes = Append(@, [kind |-> KindOf(tk), val |-> ValOf(tk), un |-> u.un])]
    [] tk.t = "open" -> [s EXCEPT !.i = @ + 1, !.depth = @ + 1]
    [] tk.t = "close" ->
        LET lo   == LowestTrailing(s.ops, s.depth)
            top  == IF Len(s.ust) > 0 THEN s.ust[Len(s.ust)] ELSE <<0, -7>>
            pops == top[2] = s.depth - 1
            add  == IF pops THEN Unaries(T, toks, top[1]) ELSE [err |-> FALSE, un |-> <<>>]
            ust2 == IF pops THEN SubSeq(s.ust, 1, Len(s.ust) - 1) ELSE s.ust
        IN IF lo = 0 /\ Len(s.nodes) = 0 THEN [s EXCEPT !.err = "no-node-between-parens"]
           ELSE IF add.err THEN [s EXCEPT !.err = "operator-role"]
           ELSE IF lo = 0
                THEN [s EXCEPT !.i = @ + 1, !.depth = @ - 1, !.ust = ust2, !.nodes[Len(s.nodes)].un = add.un \o @]
                ELSE [s EXCEPT !.i = @ + 1, !.depth = @ - 1, !.ust = ust2, !.ops[lo].un = add.un \o @]
    [] OTHER -> [s EXCEPT !.err = "panic-unknown-token"]

RECURSIVE BuildFrom(_, _, _)
BuildFrom(T, toks, s) == IF s.err # "none" \/ s.i > Len(toks) THEN s ELSE BuildFrom(T, toks, Step(T, toks, s))

\* ---- prioritized_indices_flat ---------------------------------------------------------------------
\* nearest operator left of j whose priority is not strictly higher than that of j (0 if none)
RECURSIVE LeftRun(_, _, _)
LeftRun(ops, j, k) == IF k = 0 THEN 0 ELSE IF ops[k].prio > ops[j].prio THEN LeftRun(ops, j, k - 1) ELSE k
Key(f, j) ==
  LET l    == LeftRun(f.ops, j, j - 1)
      bump == /\ f.ops[j].comm /\ f.nodes[j].kind = "num" /\ f.nodes[j + 1].kind = "num"
              /\ (BumpGuard => /\ Len(f.ops[j].un) = 0
                               /\ (l = 0 \/ f.ops[l].prio < f.ops[j].prio \/ f.ops[l].o = f.ops[j].o))
  IN f.ops[j].prio * 10 + (IF bump THEN 5 ELSE 0)
\* stable sort by descending key = rank by (key desc, index asc)
Order(f) ==
  LET n == Len(f.ops)
      key == [j \in 1..n |-> Key(f, j)]
      before(a, b) == key[a] > key[b] \/ (key[a] = key[b] /\ a < b)
  IN [p \in 1..n |-> CHOOSE j \in 1..n : Cardinality({k \in 1..n : before(k, j)}) = p - 1]

\* a flat expression: nodes, ops, prio (= prio_indices)
MkFlat(nodes, ops) == LET f == [nodes |-> nodes, ops |-> ops] IN [nodes |-> nodes, ops |-> ops, prio |-> Order(f)]

\* [err |-> reason] or a flat expression (err = "none")
Build(T, toks) ==
  LET b == BuildFrom(T, toks, St0) IN
  IF b.err # "none" THEN [err |-> b.err]
  ELSE IF Len(b.ops) + 1 # Len(b.nodes) THEN [err |-> "count"]
  ELSE [err |-> "none"] @@ MkFlat(b.nodes, b.ops)

\* ---- evaluation ----------------------------------------------------------------------------------------
RECURSIVE ApplyUn(_, _)
ApplyUn(un, x) == IF Len(un) = 0 THEN x ELSE Un(un[1], ApplyUn(Tail(un), x))
LeafVal(nd) == ApplyUn(nd.un, nd.val)

\* eval_binary with the tracker abstracted to alive flags
RECURSIVE Reduce(_, _, _, _)
Reduce(f, p, nums, alive) ==
  IF p > Len(f.prio) THEN nums[1]
  ELSE LET idx == f.prio[p]
           n1 == CHOOSE j \in 1..idx : alive[j] /\ \A k \in (j + 1)..idx : ~alive[k]
           n2 == CHOOSE j \in (idx + 1)..Len(nums) : alive[j] /\ \A k \in (idx + 1)..(j - 1) : ~alive[k]
           r  == ApplyUn(f.ops[idx].un, Bin(f.ops[idx].o, nums[n1], nums[n2]))
       IN Reduce(f, p + 1, [nums EXCEPT ![n1] = r], [alive EXCEPT ![n2] = FALSE])
Eval(f) == Reduce(f, 1, [j \in 1..Len(f.nodes) |-> LeafVal(f.nodes[j])], [j \in 1..Len(f.nodes) |-> TRUE])
\* the steps of eval_binary as the hook reports them: <<operator index, left operand slot, right operand slot>> (1-based)
RECURSIVE ReduceSteps(_, _, _, _)
ReduceSteps(f, p, alive, acc) ==
  IF p > Len(f.prio) THEN acc
  ELSE LET idx == f.prio[p]
           n1 == CHOOSE j \in 1..idx : alive[j] /\ \A k \in (j + 1)..idx : ~alive[k]
           n2 == CHOOSE j \in (idx + 1)..Len(alive) : alive[j] /\ \A k \in (idx + 1)..(j - 1) : ~alive[k]
       IN ReduceSteps(f, p + 1, [alive EXCEPT ![n2] = FALSE], Append(acc, <<idx, n1, n2>>))
EvalSteps(f) == ReduceSteps(f, 1, [j \in 1..Len(f.nodes) |-> TRUE], <<>>)

\* ---- FlatEx::compile -------------------------------------------------------------------------------------
RemoveAt(s, k) == SubSeq(s, 1, k - 1) \o SubSeq(s, k + 1, Len(s))
RECURSIVE CompLoop(_, _, _, _, _, _, _)
\* f: original expression; i: position in prio_indices; nodes: current nodes; inds: num_inds; dec: already_declined; used;
\* tr: the decisions as the hook reports them: <<"fold" | "decline" | "skip", operator index, node index>> (1-based)
CompLoop(f, i, nodes, inds, dec, used, tr) ==
  IF i > Len(f.prio) THEN [nodes |-> nodes, used |-> used, tr |-> tr]
  ELSE LET b == f.prio[i]
           k == inds[i]
       IN IF k + 1 > Len(nodes) \/ k < 1 THEN [nodes |-> nodes, used |-> used, tr |-> tr, panic |-> TRUE]
          ELSE IF nodes[k].kind = "num" /\ nodes[k + 1].kind = "num" /\ ~dec[k] /\ ~dec[k + 1]
          THEN LET r == ApplyUn(f.ops[b].un, Bin(f.ops[b].o, nodes[k].val, nodes[k + 1].val))
               IN CompLoop(f, i + 1,
                           RemoveAt([nodes EXCEPT ![k] = [kind |-> "num", val |-> r, un |-> <<>>]], k + 1),
                           [j \in 1..Len(inds) |-> IF inds[j] > k THEN inds[j] - 1 ELSE inds[j]],
                           RemoveAt(dec, k + 1), used \cup {b}, Append(tr, <<"fold", b, k>>))
          ELSE CompLoop(f, i + 1, nodes, inds, [dec EXCEPT ![k] = TRUE, ![k + 1] = TRUE], used,
                        Append(tr, <<IF nodes[k].kind = "num" /\ nodes[k + 1].kind = "num" THEN "decline" ELSE "skip", b, k>>))
RECURSIVE Keep(_, _, _)
Keep(ops, used, j) == IF j > Len(ops) THEN <<>> ELSE (IF j \in used THEN <<>> ELSE <<ops[j]>>) \o Keep(ops, used, j + 1)
Compile(f) ==
  LET n0 == [j \in 1..Len(f.nodes) |->
               IF f.nodes[j].kind = "num" THEN [kind |-> "num", val |-> LeafVal(f.nodes[j]), un |-> <<>>] ELSE f.nodes[j]]
      c  == CompLoop(f, 1, n0, f.prio, [j \in 1..Len(f.nodes) |-> FALSE], {}, <<>>)
  IN IF "panic" \in DOMAIN c THEN [err |-> "panic-compile-index"]
     ELSE [err |-> "none"] @@ MkFlat(c.nodes, Keep(f.ops, c.used, 1))
CompileSteps(f) ==
  LET n0 == [j \in 1..Len(f.nodes) |->
               IF f.nodes[j].kind = "num" THEN [kind |-> "num", val |-> LeafVal(f.nodes[j]), un |-> <<>>] ELSE f.nodes[j]]
  IN CompLoop(f, 1, n0, f.prio, [j \in 1..Len(f.nodes) |-> FALSE], {}, <<>>).tr

\* FlatEx::parse = parse_wo_compile + compile
ParseFlat(T, toks, compile) ==
  LET f == Build(T, toks) IN IF f.err # "none" \/ ~compile THEN f ELSE Compile(f)
FlatEval(T, toks, compile) ==
  LET f == ParseFlat(T, toks, compile) IN IF f.err # "none" THEN [k |-> "err", why |-> f.err] ELSE Eval(f)

\* ---- FlatEx::var_indices_ordered: variables in the order in which evaluation first touches their nodes -------------
(* For every operator in prio order: the node directly left (idx) and directly right (idx + 1) of it, each node    *)
(* reported at most once; variable nodes give their index in the sorted variable list (1-based), numbers nothing.  *)
NodeVarNames(f) == SortNames({f.nodes[j].val.v : j \in {q \in 1..Len(f.nodes) : f.nodes[q].kind = "var"}})
VarIdxOf(f, j) == LET vs == NodeVarNames(f) IN CHOOSE q \in 1..Len(vs) : vs[q] = f.nodes[j].val.v
RECURSIVE VioScan(_, _, _, _)
VioScan(f, p, taken, acc) ==
  IF p > Len(f.prio) THEN acc
  ELSE LET idx == f.prio[p]
           one(j, tk, a) == IF j \in tk \/ f.nodes[j].kind # "var" THEN a ELSE Append(a, VarIdxOf(f, j))
           a1 == one(idx, taken, acc)
           a2 == one(idx + 1, taken \cup {idx}, a1)
       IN VioScan(f, p + 1, taken \cup {idx, idx + 1}, a2)
VarIndicesOrdered(f) == VioScan(f, 1, {}, <<>>)
\* what the documentation promises about it: every variable *occurrence* that is an operand of some operator appears
\* exactly once (a lone variable without operator gives the empty list), in an order compatible with EvalSteps
VioSound(f) ==
  LET vio == VarIndicesOrdered(f)
      occ == {j \in 1..Len(f.nodes) : f.nodes[j].kind = "var"}
  IN /\ Len(f.ops) > 0 => Len(vio) = Cardinality(occ)
     /\ \A x \in 1..Len(NodeVarNames(f)) :
           Cardinality({q \in 1..Len(vio) : vio[q] = x}) = (IF Len(f.ops) > 0 THEN Cardinality({j \in occ : VarIdxOf(f, j) = x}) ELSE 0)

\* ---- eval_flatex_consuming_vars: the take-or-clone scan -----------------------------------------------------
(* vi: the list of variable indices of the nodes (usize::MAX entries modelled as 0).  For the node at    *)
(* position p (a variable with index x): count the entries equal to x; if more than one, mark the LAST   *)
(* such entry and clone, otherwise take.  Returns for every variable node "clone" / "take" / "hole"      *)
(* (a take from a slot that was already taken).                                                          *)
RECURSIVE ConsumeScan(_, _, _, _, _)
ConsumeScan(nodes, p, vi, taken, acc) ==
  IF p > Len(nodes) THEN acc
  ELSE IF nodes[p].kind # "var" THEN ConsumeScan(nodes, p + 1, vi, taken, Append(acc, "num"))
  ELSE LET x == nodes[p].vidx
           S == {q \in 1..Len(vi) : vi[q] = x}
       IN IF Cardinality(S) > 1
          THEN LET last == CHOOSE q \in S : \A r \in S : r <= q
               IN ConsumeScan(nodes, p + 1, [vi EXCEPT ![last] = 0], taken,
                              Append(acc, IF x \in taken THEN "hole" ELSE "clone"))
          ELSE ConsumeScan(nodes, p + 1, vi, taken \cup {x}, Append(acc, IF x \in taken THEN "hole" ELSE "take"))
RECURSIVE VarIdxList(_, _)
VarIdxList(nodes, p) == IF p > Len(nodes) THEN <<>>
                        ELSE (IF nodes[p].kind = "var" THEN <<nodes[p].vidx>> ELSE <<>>) \o VarIdxList(nodes, p + 1)
Consume(nodes) == ConsumeScan(nodes, 1, VarIdxList(nodes, 1), {}, <<>>)
=============================================================================
