---------------------------- MODULE FloatSem ----------------------------
(* Axiomatic characterisation of the default float operators and constants in 10^-4 fixed point on a grid:     *)
(* exact algebraic operators; exp, sin, cos by Taylor polynomials; every other function by its defining equation  *)
(* with the principal range (tan = sin/cos, sinh = (e^x - e^-x)/2, f(f^-1(x)) = x, 2^log2(x) = x, the quadrant of   *)
(* atan2, ...); constants by digits and equations; special values by a class table.  Tolerance 3*10^-3: far above  *)
(* f32 rounding, far below the distance of any two functions of the table on the grid.  Decides WHICH function    *)
(* and WHICH argument order an operator computes, not last-digit accuracy.                                         *)
EXTENDS Integers, Sequences, FiniteSets, TLC

S == 10000
TOL == 30
AbsV(x) == IF x < 0 THEN -x ELSE x
SgnV(x) == IF x < 0 THEN -1 ELSE IF x > 0 THEN 1 ELSE 0
Near(a, b) == AbsV(a - b) <= TOL
NearT(a, b, t) == AbsV(a - b) <= t
\* fixed-point product without overflow for |a|, |b| <= 25*S
MulX(a, b) == LET x == AbsV(a) y == AbsV(b) IN SgnV(a) * SgnV(b) * (x * (y \div S) + (x * (y % S)) \div S)
RECURSIVE PowI(_, _)
PowI(x, n) == IF n = 0 THEN S ELSE MulX(PowI(x, n - 1), x)
\* Taylor sums: term_k = term_{k-1} * x / k
Pick(mode, k) == CASE mode = "exp" -> 1
                   [] mode = "sin" -> (IF k % 4 = 1 THEN 1 ELSE IF k % 4 = 3 THEN -1 ELSE 0)
                   [] mode = "cos" -> (IF k % 4 = 0 THEN 1 ELSE IF k % 4 = 2 THEN -1 ELSE 0)
RECURSIVE TSum(_, _, _, _, _)
TSum(x, k, term, kmax, mode) ==
  IF k > kmax THEN 0 ELSE Pick(mode, k) * term + TSum(x, k + 1, MulX(term, x) \div (k + 1), kmax, mode)
ExpT(x) == TSum(x, 0, S, 26, "exp")
SinT(x) == TSum(x, 0, S, 26, "sin")
CosT(x) == TSum(x, 0, S, 26, "cos")
SinhT(x) == (ExpT(x) - ExpT(-x)) \div 2
CoshT(x) == (ExpT(x) + ExpT(-x)) \div 2
LN2 == 6931   LN10 == 23026   PIV == 31416   EV == 27183   TAUV == 62832
Fin(r) == r.c \in {"fin", "zero", "nzero"}
Floor(x) == (x \div S) * S
Trunc(x) == SgnV(x) * ((AbsV(x) \div S) * S)
Round(x) == SgnV(x) * (((AbsV(x) + S \div 2) \div S) * S)
IsInt(x) == x % S = 0
Lim == 20 * S

(* verdict for a record on the grid: "ok" | "unchecked" | "bad:..." *)
\* result expected finite and near v (or "big" if |v| exceeds what is recorded)
Want(r, v) == IF AbsV(v) > Lim - S THEN (IF r.c \in {"big", "fin"} THEN "ok" ELSE "bad:class") ELSE IF Fin(r) /\ Near(r.v, v) THEN "ok" ELSE "bad:value"
WantT(r, v, t) == IF AbsV(v) > Lim - S THEN (IF r.c \in {"big", "fin"} THEN "ok" ELSE "bad:class") ELSE IF Fin(r) /\ NearT(r.v, v, t) THEN "ok" ELSE "bad:value"
Eqn(ok) == IF ok THEN "ok" ELSE "bad:equation"
Bin2(op, x, y, r, aux) ==
  CASE op = "+" -> Want(r, x + y)
    [] op = "-" -> Want(r, x - y)
    [] op = "*" -> Want(r, MulX(x, y))
    [] op = "/" -> IF y = 0 THEN (IF x = 0 THEN Eqn(r.c = "nan") ELSE Eqn(r.c = (IF x > 0 THEN "pinf" ELSE "ninf")))
                   ELSE IF r.c = "big" THEN "unchecked" ELSE Eqn(Fin(r) /\ NearT(MulX(r.v, y), x, TOL + AbsV(y) \div 2000))
    [] op = "^" -> IF IsInt(y) /\ y >= 0 /\ y <= 3 * S THEN Want(r, PowI(x, y \div S))
                   ELSE IF IsInt(y) /\ y < 0 /\ y >= -3 * S
                        THEN (IF x = 0 THEN Eqn(r.c \in {"pinf", "ninf"}) ELSE IF r.c = "big" THEN "unchecked"
                              ELSE Eqn(Fin(r) /\ NearT(MulX(r.v, PowI(x, (-y) \div S)), S, TOL * (1 + AbsV(PowI(x, (-y) \div S)) \div S))))
                   ELSE IF x < 0 THEN Eqn(r.c = "nan")                       \* negative base, fractional exponent
                   ELSE IF y = S \div 2 THEN Eqn(Fin(r) /\ r.v >= 0 /\ Near(aux.sq.v, x))
                   ELSE IF y = -(S \div 2) /\ x > 0 THEN Eqn(Fin(r) /\ NearT(MulX(aux.sq.v, x), S, TOL * 4))
                   ELSE "unchecked"
    [] op = "atan2" -> \* first argument is y, second is x:  y cos(a) = x sin(a), sin(a) has the sign of y, cos(a) the sign of x
                   IF x = 0 /\ y = 0 THEN "unchecked"
                   ELSE Eqn(/\ Fin(r) /\ Near(MulX(x, aux.cos.v), MulX(y, aux.sin.v))
                            /\ (x # 0 => SgnV(aux.sin.v) = SgnV(x) \/ AbsV(aux.sin.v) <= TOL)
                            /\ (y # 0 => SgnV(aux.cos.v) = SgnV(y) \/ AbsV(aux.cos.v) <= TOL)
                            /\ (x = 0 => (IF y > 0 THEN AbsV(r.v) <= TOL ELSE AbsV(AbsV(r.v) - PIV) <= TOL))   \* on the axis: 0 or +-pi
                            /\ AbsV(r.v) <= PIV + TOL)
    [] op = "min" -> Want(r, IF x < y THEN x ELSE y)
    [] op = "max" -> Want(r, IF x > y THEN x ELSE y)
    [] OTHER -> "bad:unknown-operator"
Un1(op, x, r, aux) ==
  CASE op = "+" -> Want(r, x)
    [] op = "-" -> Want(r, -x)
    [] op = "abs" -> Want(r, AbsV(x))
    [] op = "signum" -> Want(r, IF x >= 0 THEN S ELSE -S)
    [] op = "floor" -> Want(r, Floor(x))
    [] op = "ceil" -> Want(r, -Floor(-x))
    [] op = "trunc" -> Want(r, Trunc(x))
    [] op = "round" -> Want(r, Round(x))
    [] op = "fract" -> Want(r, x - Trunc(x))
    [] op = "sqrt" -> IF x < 0 THEN Eqn(r.c = "nan") ELSE Eqn(Fin(r) /\ r.v >= 0 /\ Near(aux.sq.v, x))
    [] op = "cbrt" -> Eqn(Fin(r) /\ NearT(aux.cube.v, x, TOL * 3))
    [] op = "exp" -> WantT(r, ExpT(x), TOL + AbsV(ExpT(x)) \div 3000)
    [] op = "sin" -> Want(r, SinT(x))
    [] op = "cos" -> Want(r, CosT(x))
    [] op = "tan" -> IF r.c = "big" THEN "unchecked" ELSE Eqn(Fin(r) /\ NearT(MulX(r.v, CosT(x)), SinT(x), TOL * (1 + AbsV(r.v) \div S)))
    [] op = "asin" -> IF AbsV(x) > S THEN Eqn(r.c = "nan") ELSE Eqn(Fin(r) /\ Near(aux.sin.v, x) /\ aux.cos.v >= -TOL)
    [] op = "acos" -> IF AbsV(x) > S THEN Eqn(r.c = "nan") ELSE Eqn(Fin(r) /\ Near(aux.cos.v, x) /\ aux.sin.v >= -TOL)
    [] op = "atan" -> Eqn(Fin(r) /\ Near(aux.sin.v, MulX(x, aux.cos.v)) /\ aux.cos.v > 0)
    [] op = "sinh" -> WantT(r, SinhT(x), TOL * 2)
    [] op = "cosh" -> WantT(r, CoshT(x), TOL * 2)
    [] op = "tanh" -> Eqn(Fin(r) /\ NearT(MulX(r.v, CoshT(x)), SinhT(x), TOL * 4))
    [] op = "asinh" -> Eqn(Fin(r) /\ NearT(aux.sinh.v, x, TOL * 2))
    [] op = "acosh" -> IF x < S THEN Eqn(r.c = "nan") ELSE Eqn(Fin(r) /\ r.v >= 0 /\ NearT(aux.cosh.v, x, TOL * 2))
    [] op = "atanh" -> IF AbsV(x) > S THEN Eqn(r.c = "nan") ELSE IF AbsV(x) = S THEN Eqn(r.c = (IF x > 0 THEN "pinf" ELSE "ninf"))
                       ELSE Eqn(Fin(r) /\ Near(aux.tanh.v, x))
    [] op \in {"ln", "log"} -> IF x < 0 THEN Eqn(r.c = "nan") ELSE IF x = 0 THEN Eqn(r.c = "ninf") ELSE Eqn(Fin(r) /\ NearT(aux.exp.v, x, TOL + x \div 2000))
    [] op = "log2" -> IF x < 0 THEN Eqn(r.c = "nan") ELSE IF x = 0 THEN Eqn(r.c = "ninf") ELSE Eqn(Fin(r) /\ NearT(ExpT(MulX(r.v, LN2)), x, TOL + x \div 1000))
    [] op = "log10" -> IF x < 0 THEN Eqn(r.c = "nan") ELSE IF x = 0 THEN Eqn(r.c = "ninf") ELSE Eqn(Fin(r) /\ NearT(ExpT(MulX(r.v, LN10)), x, TOL + x \div 1000))
    [] OTHER -> "bad:unknown-operator"
\* constants: the Greek spellings arrive as GREEK_PI / GREEK_TAU (TLC strings are ASCII)
Const0(op, r, aux) ==
  CASE op \in {"PI", "GREEK_PI"} -> Eqn(Fin(r) /\ NearT(r.v, PIV, 2) /\ AbsV(aux.sin.v) <= TOL /\ Near(aux.cos.v, -S))
    [] op \in {"E", "e"} -> Eqn(Fin(r) /\ NearT(r.v, EV, 2) /\ Near(aux.ln.v, S))
    [] op \in {"TAU", "GREEK_TAU"} -> Eqn(Fin(r) /\ NearT(r.v, TAUV, 2) /\ AbsV(aux.sin.v) <= TOL /\ Near(aux.cos.v, S))
    [] OTHER -> "bad:unknown-constant"
=============================================================================
