---------------------------- MODULE Gen ----------------------------
(* Bounded-exhaustive enumeration of expression trees over a table.                                   *)
(* Leaf i is either the literal `i` or the variable `x<i>`, so every regrouping stays visible.        *)
EXTENDS Render

Digit(i) == 48 + i
LeafSet(i, withConst, T) ==
  {Num(<<Digit(i)>>), Var(<<120, Digit(i)>>)}
  \cup (IF withConst /\ i = 2 THEN {Const(o) : o \in {p \in OpIds(T) : T[p].const}} ELSE {})

\* all ways to put a chain of exactly u unary operators on top of a tree
RECURSIVE Chain(_, _, _)
Chain(T, t, u) == IF u = 0 THEN {t} ELSE UNION {Chain(T, Un(o, t), u - 1) : o \in UnIds(T)}

(* TU(T, lo, hi, u, wc): trees over the leaves lo..hi with exactly u unary nodes *)
RECURSIVE TU(_, _, _, _, _)
TU(T, lo, hi, u, wc) ==
  IF lo = hi THEN UNION {Chain(T, l, u) : l \in LeafSet(lo, wc, T)}
  ELSE UNION { UNION { UNION { UNION { Chain(T, Bin(o, l, r), u - ul - ur)
                                       : l \in TU(T, lo, m, ul, wc), r \in TU(T, m + 1, hi, ur, wc), o \in BinIds(T) }
                               : ur \in 0..(u - ul) }
                       : ul \in 0..u }
               : m \in lo..(hi - 1) }

\* root selector of a tree with >= 2 leaves: (operator, number of leaves on the left)
RECURSIVE LeafCount(_)
LeafCount(t) == CASE t.k = "un" -> LeafCount(t.a) [] t.k = "bin" -> LeafCount(t.l) + LeafCount(t.r) [] OTHER -> 1
RECURSIVE Strip(_)
Strip(t) == IF t.k = "un" THEN Strip(t.a) ELSE t

(* Trees with n leaves and at most maxU unary nodes whose root selector falls into this shard.         *)
(* Built root-first so that a shard never constructs the trees of the other shards.                    *)
ShardTrees(T, n, maxU, wc, shard, nshards) ==
  IF n = 1 THEN (IF shard = 0 THEN UNION {TU(T, 1, 1, u, wc) : u \in 0..maxU} ELSE {})
  ELSE UNION { UNION { UNION { UNION { UNION { Chain(T, Bin(o, l, r), u - ul - ur)
                                                : l \in TU(T, 1, m, ul, wc), r \in TU(T, m + 1, n, ur, wc) }
                                       : ur \in 0..(u - ul) }
                               : ul \in 0..u }
                       : u \in 0..maxU }
               : <<o, m>> \in {om \in BinIds(T) \X (1..(n - 1)) : ((om[1] - 1) * (n - 1) + (om[2] - 1)) % nshards = shard} }
=============================================================================
