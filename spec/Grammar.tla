---------------------------- MODULE Grammar ----------------------------
(* What must be rejected (property C07), stated on texts and token sequences, and the single-point    *)
(* damage operators that turn a well-formed token sequence into one that must be rejected.            *)
EXTENDS Render

RECURSIVE Balance(_, _, _)      \* TRUE iff parentheses are balanced (never negative, zero at the end)
Balance(toks, i, d) ==
  IF i > Len(toks) THEN d = 0
  ELSE IF toks[i].t = "open" THEN Balance(toks, i + 1, d + 1)
  ELSE IF toks[i].t = "close" THEN d > 0 /\ Balance(toks, i + 1, d - 1)
  ELSE Balance(toks, i + 1, d)
Unbalanced(toks) == ~Balance(toks, 1, 0)

NOperands(toks) == Cardinality({i \in 1..Len(toks) : IsOperandTok(toks[i])})
NBinary(T, toks) == Cardinality({i \in 1..Len(toks) : toks[i].t = "op" /\ IsBinAt(T, toks, i)})
EndsInOp(toks) == Len(toks) > 0 /\ toks[Len(toks)].t = "op"
CountMismatch(T, toks) == NOperands(toks) # NBinary(T, toks) + 1
HasComma(toks) == \E i \in 1..Len(toks) : toks[i].t = "comma"

(* "must" = in one of the classes of C07; "free" = ill-formed in a way C07 does not list (only         *)
(* totality and flat/deep agreement are required); "wf" = well-formed; "unspec" = lexically unfixed.   *)
Classify(T, txt) ==
  LET l == Lex(T, txt) IN
  IF l.st = "unspec" THEN "unspec"
  ELSE IF l.st = "err" THEN "must"
  ELSE IF Len(l.toks) = 0 \/ Unbalanced(l.toks) THEN "must"
  ELSE LET d == Desugar(T, l.toks) IN
       IF d.st # "ok" THEN "free"
       ELSE IF WellFormed(T, d.toks) THEN "wf"
       ELSE IF EndsInOp(d.toks) \/ CountMismatch(T, d.toks) THEN "must"
       ELSE "free"

\* ---- single-point damages of a well-formed token sequence (each result must be rejected) ----------
DeleteAt(toks, i) == SubSeq(toks, 1, i - 1) \o SubSeq(toks, i + 1, Len(toks))
InsertAt(toks, i, tk) == SubSeq(toks, 1, i - 1) \o <<tk>> \o SubSeq(toks, i, Len(toks))   \* before position i
ParenIdx(toks) == {i \in 1..Len(toks) : toks[i].t \in {"open", "close"}}
DmgDeleteParen(toks)  == {DeleteAt(toks, i) : i \in ParenIdx(toks)}
DmgInsertParen(toks)  == {InsertAt(toks, i, p) : i \in 1..(Len(toks) + 1), p \in {TOpen, TClose}}
DmgAppendBin(T, toks) == {Append(toks, TOp(o)) : o \in BinIds(T)}
\* an extra operand directly beside an existing operand (before or after it)
DmgExtraOperand(toks, extra) ==
  UNION {{InsertAt(toks, i, extra), InsertAt(toks, i + 1, extra)} : i \in {j \in 1..Len(toks) : IsOperandTok(toks[j])}}
=============================================================================
