---------------------------- MODULE Jets ----------------------------
(* Truncated power series c0 + c1 t + ... + c5 t^5 over GF(32749): a homomorphic model of analysis at a    *)
(* base point.  Every elementary function is expanded at its own base point with exact rational Taylor        *)
(* coefficients; ln 2, ln 10 and pi/2 are independent symbols with fixed field values.  Programs are "typed    *)
(* by base point" (every function argument has the function's base point as constant term), otherwise the      *)
(* evaluation is inconclusive, never wrong.                                                                     *)
(*   IsPartial(d, e) :  JetEval(d) = d/dt JetEval(e)   as series (5 coefficients)                              *)
(* Any mathematically correct derivative expression evaluates equal; a wrong sign, a swapped rule or a dropped  *)
(* chain factor changes a low-order coefficient.                                                                *)
EXTENDS Field, Ref

K == 6
LN2 == 1234   LN10 == 5678   HPI == 9012          \* ln 2, ln 10, pi/2 as independent symbols
Q(n, d) == FRat(n, d)

ASSUME K = 6
\* TLC evaluates [i \in S |-> e] lazily (every application re-evaluates e), which is exponential in the depth of an
\* expression tree; series are therefore built as explicit tuples
Mk(f(_)) == <<f(1), f(2), f(3), f(4), f(5), f(6)>>
JConst(c) == Mk(LAMBDA i : IF i = 1 THEN c ELSE 0)
JLin(c, r) == Mk(LAMBDA i : IF i = 1 THEN c ELSE IF i = 2 THEN r ELSE 0)      \* c + r t
JAdd(a, b) == Mk(LAMBDA i : FAdd(a[i], b[i]))
JSub(a, b) == Mk(LAMBDA i : FSub(a[i], b[i]))
JNeg(a) == Mk(LAMBDA i : FNeg(a[i]))
RECURSIVE Conv(_, _, _, _)
Conv(a, b, i, j) == IF j > i THEN 0 ELSE FAdd(FMul(a[j], b[i - j + 1]), Conv(a, b, i, j + 1))
JMul(a, b) == Mk(LAMBDA i : Conv(a, b, i, 1))
RECURSIVE InvCoef(_, _, _)
RECURSIVE InvSum(_, _, _, _)
InvSum(a, n, j, b) == IF j > n THEN 0 ELSE FAdd(FMul(a[j + 1], b[n - j + 1]), InvSum(a, n, j + 1, b))
InvCoef(a, inv0, b) == IF Len(b) = K THEN b
                       ELSE LET n == Len(b) IN InvCoef(a, inv0, Append(b, FMul(FNeg(inv0), InvSum(a, n, 1, b))))
JInv(a) == LET inv0 == FInv(a[1]) IN InvCoef(a, inv0, <<inv0>>)          \* a[1] # 0
RECURSIVE JPowInt(_, _)
JPowInt(a, n) == IF n = 0 THEN JConst(1) ELSE JMul(a, JPowInt(a, n - 1))
\* f(base + u) for u with zero constant term, f given by its Taylor coefficients c at the base point (Horner)
RECURSIVE Horner(_, _, _)
Horner(c, u, i) == IF i = K THEN JConst(c[K]) ELSE JAdd(JConst(c[i]), JMul(u, Horner(c, u, i + 1)))
ZeroC(a) == Mk(LAMBDA i : IF i = 1 THEN 0 ELSE a[i])
JComp(c, a) == Horner(c, ZeroC(a), 1)
JDer(a) == Mk(LAMBDA i : IF i < K THEN FMul(i, a[i + 1]) ELSE 0)
Trunc(a) == Mk(LAMBDA i : IF i < K THEN a[i] ELSE 0)

\* [base |-> base point, c |-> Taylor coefficients f^(k)(b)/k!, k = 0..5]  (generated with sympy, see DESIGN.md)
Fn(s) ==
  CASE s = "sin" -> [base |-> 0, c |-> <<0, 1, 0, Q(-1, 6), 0, Q(1, 120)>>]
    [] s = "cos" -> [base |-> 0, c |-> <<1, 0, Q(-1, 2), 0, Q(1, 24), 0>>]
    [] s = "tan" -> [base |-> 0, c |-> <<0, 1, 0, Q(1, 3), 0, Q(2, 15)>>]
    [] s = "asin" -> [base |-> 0, c |-> <<0, 1, 0, Q(1, 6), 0, Q(3, 40)>>]
    [] s = "acos" -> [base |-> 0, c |-> <<HPI, FNeg(1), 0, Q(-1, 6), 0, Q(-3, 40)>>]
    [] s = "atan" -> [base |-> 0, c |-> <<0, 1, 0, Q(-1, 3), 0, Q(1, 5)>>]
    [] s = "sinh" -> [base |-> 0, c |-> <<0, 1, 0, Q(1, 6), 0, Q(1, 120)>>]
    [] s = "cosh" -> [base |-> 0, c |-> <<1, 0, Q(1, 2), 0, Q(1, 24), 0>>]
    [] s = "tanh" -> [base |-> 0, c |-> <<0, 1, 0, Q(-1, 3), 0, Q(2, 15)>>]
    [] s = "asinh" -> [base |-> 0, c |-> <<0, 1, 0, Q(-1, 6), 0, Q(3, 40)>>]
    [] s = "atanh" -> [base |-> 0, c |-> <<0, 1, 0, Q(1, 3), 0, Q(1, 5)>>]
    [] s = "exp" -> [base |-> 0, c |-> <<1, 1, Q(1, 2), Q(1, 6), Q(1, 24), Q(1, 120)>>]
    [] s \in {"ln", "log"} -> [base |-> 1, c |-> <<0, 1, Q(-1, 2), Q(1, 3), Q(-1, 4), Q(1, 5)>>]
    [] s = "log2" -> LET i == FInv(LN2) IN [base |-> 1, c |-> <<0, FMul(1, i), FMul(Q(-1, 2), i), FMul(Q(1, 3), i), FMul(Q(-1, 4), i), FMul(Q(1, 5), i)>>]
    [] s = "log10" -> LET i == FInv(LN10) IN [base |-> 1, c |-> <<0, FMul(1, i), FMul(Q(-1, 2), i), FMul(Q(1, 3), i), FMul(Q(-1, 4), i), FMul(Q(1, 5), i)>>]
    [] s = "sqrt" -> [base |-> 1, c |-> <<1, Q(1, 2), Q(-1, 8), Q(1, 16), Q(-5, 128), Q(7, 256)>>]
    [] s = "sqrt@1/4" -> [base |-> Q(1, 4), c |-> <<Q(1, 2), 1, FNeg(1), 2, FNeg(5), 14>>]              \* needed by the rule of acosh at 5/4
    [] s = "sqrt@9/4" -> [base |-> Q(9, 4), c |-> <<Q(3, 2), Q(1, 3), Q(-1, 27), Q(2, 243), Q(-5, 2187), Q(14, 19683)>>]
    \* acosh at 5/4: acosh(5/4) = ln 2, all derivatives rational
    [] s = "acosh" -> [base |-> Q(5, 4), c |-> <<LN2, Q(4, 3), Q(-40, 27), Q(704, 243), Q(-15680, 2187), Q(1967104, 98415)>>]
    [] OTHER -> [base |-> -1, c |-> <<>>]
Differentiable == {"sin", "cos", "tan", "asin", "acos", "atan", "sinh", "cosh", "tanh", "asinh", "acosh", "atanh", "exp",
                   "ln", "log", "log2", "log10", "sqrt"}

JOk(j) == [ok |-> TRUE, j |-> j]
JBad(why) == [ok |-> FALSE, why |-> why]
\* integer value of a number node if it is an integer with |n| <= 8, else 99
ConstExp(T, t) ==      \* a variable-free exponent that evaluates to an integer in -8..8, else 99
  IF TreeVars(t) # {} THEN 99
  ELSE LET b == FieldEval(T, t, [names |-> <<>>, vals |-> <<>>]) IN
       IF ~b.ok THEN 99 ELSE IF b.v <= 8 THEN b.v ELSE IF b.v >= P - 8 THEN b.v - P ELSE 99
IntLit(t) ==
  IF t.k # "num" THEN 99
  ELSE IF "n" \in DOMAIN t THEN (IF t.d = 1 /\ t.n >= -8 /\ t.n <= 8 /\ ~("big" \in DOMAIN t) THEN t.n ELSE 99)
  ELSE LET s == SmallInt(t) IN IF s >= 0 /\ s <= 8 THEN s ELSE 99
IsNumVal(t, n) == t.k = "num" /\ NumOk(t) /\ NumVal(t) = FInt(n) /\ IntLit(t) = n

(* env = [names, jets].  Unknown operators make the evaluation inconclusive ("unsupported").                 *)
RECURSIVE JetEval(_, _, _)
JetEval(T, t, env) ==
  CASE t.k = "num" -> IF NumOk(t) THEN JOk(JConst(NumVal(t))) ELSE JBad("number")
    [] t.k = "var" -> LET j == IndexOf(env.names, t.v, 1) IN IF j = 0 THEN JBad("unbound variable") ELSE JOk(env.jets[j])
    [] t.k = "un" ->
         LET s == T[t.o].usem IN
         \* the constants exmex itself introduces away from a base point: ln(2), ln(10)
         IF s \in {"ln", "log"} /\ IsNumVal(t.a, 2) THEN JOk(JConst(LN2))
         ELSE IF s \in {"ln", "log"} /\ IsNumVal(t.a, 10) THEN JOk(JConst(LN10))
         ELSE LET a == JetEval(T, t.a, env) IN
              IF ~a.ok THEN a
              ELSE IF s = "neg" THEN JOk(JNeg(a.j)) ELSE IF s = "pos" THEN JOk(a.j)
              ELSE IF s = "sqrt" /\ a.j[1] = Q(1, 4) THEN JOk(JComp(Fn("sqrt@1/4").c, a.j))
              ELSE IF s = "sqrt" /\ a.j[1] = Q(9, 4) THEN JOk(JComp(Fn("sqrt@9/4").c, a.j))
              ELSE IF s \in Differentiable
                   THEN LET f == Fn(s) IN IF a.j[1] = f.base THEN JOk(JComp(f.c, a.j)) ELSE JBad("argument off the base point")
              ELSE JBad("unsupported")
    [] t.k = "bin" ->
         LET s == T[t.o].sem a == JetEval(T, t.l, env) IN
         IF ~a.ok THEN a
         ELSE IF s = "pow" /\ ConstExp(T, t.r) # 99
              THEN LET n == ConstExp(T, t.r) IN
                   IF n >= 0 THEN JOk(JPowInt(a.j, n))
                   ELSE IF a.j[1] = 0 THEN JBad("zero divisor") ELSE JOk(JPowInt(JInv(a.j), -n))
         ELSE LET b == JetEval(T, t.r, env) IN
              IF ~b.ok THEN b
              ELSE CASE s = "add" -> JOk(JAdd(a.j, b.j)) [] s = "sub" -> JOk(JSub(a.j, b.j)) [] s = "mul" -> JOk(JMul(a.j, b.j))
                     [] s = "div" -> IF b.j[1] = 0 THEN JBad("zero divisor") ELSE JOk(JMul(a.j, JInv(b.j)))
                     [] s = "pow" -> \* a^b = exp(b ln a), exact when a has constant term 1
                                     IF a.j[1] = 1 THEN JOk(JComp(Fn("exp").c, JMul(b.j, JComp(Fn("ln").c, a.j))))
                                     ELSE JBad("power base off the base point")
                     [] OTHER -> JBad("unsupported")
    [] OTHER -> JBad("unsupported")

(* d is the partial derivative of e along the direction given by env: "yes" | "no" | "inconclusive: why"     *)
IsPartial(T, d, e, env) ==
  LET je == JetEval(T, e, env) jd == JetEval(T, d, env) IN
  IF ~je.ok THEN "inconclusive: original: " \o je.why
  ELSE IF ~jd.ok THEN "inconclusive: derivative: " \o jd.why
  ELSE IF JDer(je.j) = Trunc(jd.j) THEN "yes" ELSE "no"
JetSame(T, a, b, env) ==
  LET x == JetEval(T, a, env) y == JetEval(T, b, env) IN
  IF ~x.ok \/ ~y.ok THEN "inconclusive" ELSE IF Trunc(x.j) = Trunc(y.j) THEN "same" ELSE "different"
=============================================================================
