---------------------------- MODULE Judge_Calc ----------------------------
(* Trace validation of recorded sessions against the session machine (Exmex.tla).  One state per recorded      *)
(* session; inside a session the pool is rebuilt step by step from the SPECIFICATION's effect (not from the     *)
(* observation), each observed result is matched against it, and a verdict line is printed per step:            *)
(*   <<"V", case, step, act, verdict>>  verdict = "ok" | "inconclusive..." | "bad:..."                          *)
(* record: [case, table, seeds : Seq([text_in, form_in, outcome, vars, den, text]), steps : Seq(step + res),    *)
(*          point : Seq(<<name, n, d>>)]   (point: values of the variables for the series evaluation)           *)
EXTENDS Exmex, Json, IOUtils
Rec == ndJsonDeserialize(IOEnv.TRACE)
T0 == Rec[1].table
VARIABLE i
Init == i = 2
Next == i <= Len(Rec) /\ i' = i + 1
TabOf(r) == IF "table" \in DOMAIN r THEN r.table ELSE T0

PointVal0(r, nm, j) ==
  LET S == IF "point" \in DOMAIN r THEN {q \in 1..Len(r.point) : r.point[q][1] = nm} ELSE {} IN
  IF S = {} THEN PointVal(5, j) ELSE LET q == CHOOSE x \in S : TRUE IN FRat(r.point[q][2], r.point[q][3])
\* direction: every variable moves (x_j = a_j + r_j t with distinct r_j), so mixed partials and all variables are exercised
JetEnv(r, names) == [names |-> names, jets |-> [j \in 1..Len(names) |-> JLin(PointVal0(r, names[j], j), j + 1)]]

(* Variable list of a result: "ok" | "lost" | "bad".  "lost": sorted, inside the specified list, covering every       *)
(* variable that occurs in the observed value - but a listed variable that does not occur (any more) was dropped.     *)
(* exmex rebuilds variable lists from the occurring nodes when it substitutes or prints; see known finding F8.         *)
VarsVerdict(eff, res, act) ==
  LET got == res.vars
      inside == IsSortedNames(got) /\ Range(got) \subseteq Range(eff.e.vars) /\ TreeVars(res.den) \subseteq Range(got)
  IN IF "vlo" \in DOMAIN eff
     THEN (IF inside /\ eff.vlo \subseteq Range(got) THEN "ok" ELSE IF inside THEN "lost" ELSE "bad")
     ELSE IF got = eff.e.vars THEN "ok"
     ELSE IF act \in {"reparse", "serde"} /\ inside THEN "lost" ELSE "bad"
StepVerdict(T, r, eff, st) ==
  LET res == st.res IN
  IF res.outcome = "panic" THEN "bad:panic"
  ELSE IF "script_error" \in DOMAIN res /\ res.script_error THEN "inconclusive: script"
  ELSE CASE eff.r = "free" -> "ok"
    [] eff.r = "err" ->
         IF res.outcome # "err" THEN "bad:accepted-instead-of-error"
         ELSE IF eff.early /\ res.n_partial_events > 0 THEN "bad:work-done-before-index-error"
         ELSE "ok"
    [] eff.r \in {"entry", "deriv"} ->
         IF res.outcome # "ok" THEN "bad:outcome-" \o res.outcome
         ELSE IF res.form # eff.e.form THEN "bad:form"
         ELSE LET vv == VarsVerdict(eff, res, st.act) IN
              IF vv = "bad" THEN "bad:vars"
              ELSE LET f == IF eff.r = "entry" THEN FieldSame(T, res.den, eff.e.den, eff.e.vars)
                            ELSE JetSame(T, res.den, eff.e.den, JetEnv(r, eff.e.vars))
                   IN IF f = "different" THEN (IF eff.r = "entry" THEN "bad:value" ELSE "bad:derivative")
                      ELSE IF vv = "lost" THEN "bad:vars-unused-variable-lost"
                      ELSE IF f = "inconclusive" THEN (IF eff.r = "entry" THEN "inconclusive: no usable point" ELSE "inconclusive: off base point")
                      ELSE "ok"

\* seeds: parsed by the reference; a flat expression prints exactly the text it was parsed from
SeedEntry(T, s) ==
  LET d == Den(T, s.text_in) IN
  IF d.st # "ok" THEN Failed ELSE Entry(IF s.form_in = "deep" THEN "deep" ELSE "flat", Vars(d.toks), d.den)
SeedVerdict(T, s, e) ==
  IF ~e.ok THEN "ok"
  ELSE IF s.outcome # "ok" THEN "bad:seed-outcome-" \o s.outcome
  ELSE IF s.vars # e.vars THEN "bad:vars"
  ELSE IF FieldSame(T, s.den, e.den, e.vars) = "different" THEN "bad:value"
  ELSE IF s.form_in # "deep" /\ s.text # s.text_in THEN "bad:flat-unparse-not-verbatim"
  ELSE "ok"

RECURSIVE Walk(_, _, _, _, _)
\* prints one verdict per step; the pool continues with the specification's entry (observed derivative kept only for "free")
Walk(T, r, pool, k, acc) ==
  IF k > Len(r.steps) THEN acc
  ELSE LET st == r.steps[k]
           eff == Effect(T, pool, st)
           v == StepVerdict(T, r, eff, st)
           next == IF eff.r \in {"entry", "deriv"}
                   THEN (IF st.res.outcome = "ok" /\ ("vlo" \in DOMAIN eff \/ st.act \in {"reparse", "serde"}) /\ Range(st.res.vars) \subseteq Range(eff.e.vars)
                         THEN [eff.e EXCEPT !.vars = st.res.vars] ELSE eff.e)
                   ELSE IF eff.r = "free" /\ st.res.outcome = "ok" THEN Entry(st.res.form, st.res.vars, st.res.den)
                   ELSE Failed
       IN Walk(T, r, Append(pool, next), k + 1, acc /\ PrintT(<<"V", r.case, k, st.act, v>>))
(* End state of a session (records with `final`): every pool entry is observed once more; the pool is append-only and its   *)
(* entries are immutable values (Exmex: AppendOnly), so the second observation must equal the one made when the entry was created. *)
FinalVerdict(r, q) ==
  LET first == IF q <= Len(r.seeds) THEN r.seeds[q] ELSE r.steps[q - Len(r.seeds)].res
      last  == r.final[q]
  IN IF first.outcome # "ok" THEN "ok"
     ELSE IF last.outcome # "ok" THEN "bad:entry-changed-" \o last.outcome
     ELSE IF last.vars # first.vars THEN "bad:entry-changed-vars"
     ELSE IF last.den # first.den THEN "bad:entry-changed-value"
     ELSE IF last.text # first.text THEN "bad:entry-changed-text"
     ELSE "ok"
Session(r) ==
  LET T == TabOf(r)
      seeds == [q \in 1..Len(r.seeds) |-> SeedEntry(T, r.seeds[q])]
  IN /\ \A q \in 1..Len(r.seeds) : PrintT(<<"V", r.case, 0, "seed", SeedVerdict(T, r.seeds[q], seeds[q])>>)
     /\ Walk(T, r, seeds, 1, TRUE)
     /\ ("final" \in DOMAIN r => \A q \in 1..Len(r.final) : PrintT(<<"V", r.case, q, "final", FinalVerdict(r, q)>>))
Verdicts == i <= Len(Rec) => Session(Rec[i])
AllJudged == TLCGet("stats").diameter = Len(Rec)
=============================================================================
