---------------------------- MODULE Judge_Consume ----------------------------
(* Judge of recorded consuming evaluations: [text, ghost, outcome, vars, borrow, vec, iter, clones_vec, clones_iter, hole] *)
(* ghost: names added to the variable list without occurring (the recorder builds `e + g*0` through the deep form)    *)
EXTENDS Grammar, Json, IOUtils
Rec == ndJsonDeserialize(IOEnv.TRACE)
T0 == Rec[1].table
VARIABLE i
Init == i = 2
Next == i <= Len(Rec) /\ i' = i + 1
TabOf(r) == IF "table" \in DOMAIN r THEN r.table ELSE T0
Occurrences(toks, name) == Cardinality({j \in 1..Len(toks) : toks[j].t = "var" /\ toks[j].v = name})
Judge(r) ==
  LET T == TabOf(r)
      d == Den(T, r.text)
  IN IF d.st # "ok" THEN "ok"                              \* only well-formed texts are constrained here
     ELSE IF r.outcome \notin {"ok", "script"} THEN "bad:outcome-" \o r.outcome
     ELSE IF r.outcome = "script" THEN "ok"                \* the ghost construction itself failed: nothing observed
     ELSE LET vs == SortNames(Range(Vars(d.toks)) \cup Range(r.ghost)) IN
          IF r.vars # vs THEN "bad:vars"
          ELSE IF r.hole THEN "bad:moved-out-placeholder-reached-an-operator"
          ELSE IF ~Same(T, r.borrow, d.den) THEN "bad:borrowing-eval"
          ELSE IF r.vec # r.borrow THEN "bad:eval_vec-differs"
          ELSE IF r.iter # r.borrow THEN "bad:eval_iter-differs"
          ELSE IF \E k \in 1..Len(vs) : Occurrences(d.toks, vs[k]) <= 1 /\ (r.clones_vec[k] # 0 \/ r.clones_iter[k] # 0)
               THEN "bad:single-occurrence-cloned"
          ELSE "ok"
Verdicts == i <= Len(Rec) => PrintT(<<"V", Rec[i].case, "wf", Judge(Rec[i]), "consume">>)
AllJudged == TLCGet("stats").diameter = Len(Rec)
=============================================================================
