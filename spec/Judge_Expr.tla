---------------------------- MODULE Judge_Expr ----------------------------
(* Judge of recorded expression runs (both directions).  One state per record; the verdict of every     *)
(* record is computed from the *text* with the reference semantics and printed.                        *)
(*   record: [case, text, expect, runs : Seq([entry, outcome, vars, den])] (+ optional table)            *)
EXTENDS Grammar, Json, IOUtils

Rec == ndJsonDeserialize(IOEnv.TRACE)
T0 == Rec[1].table
VARIABLE i
Init == i = 2
Next == i <= Len(Rec) /\ i' = i + 1

(* For the mirror of the built-in value table the flag `comm` of the implementation is not taken on trust: only   *)
(* operators that really are associative and commutative on values may be regrouped (+ * | & XOR && || dot).      *)
ValAC == {<<43>>, <<42>>, <<124>>, <<38>>, <<88, 79, 82>>, <<38, 38>>, <<124, 124>>, <<100, 111, 116>>}
RawTab(r) == IF "table" \in DOMAIN r THEN r.table ELSE T0
TabOf(r) == LET T == RawTab(r) IN
            IF "semtab" \in DOMAIN r THEN [j \in 1..Len(T) |-> [T[j] EXCEPT !.comm = @ /\ T[j].name \in ValAC]] ELSE T

Opaque(run) == "opaque" \in DOMAIN run      \* entry points over the built-in tables: only the outcome is recorded
RunWf(T, d, vs, run) ==
  IF Opaque(run) THEN (IF run.outcome \in {"ok", "err"} THEN "ok" ELSE "bad:" \o run.outcome)
  ELSE IF run.outcome # "ok" THEN "bad:outcome-" \o run.outcome
  ELSE IF run.vars # vs THEN "bad:vars"
  ELSE IF ~Same(T, run.den, d.den) THEN "bad:den"
  ELSE IF "lst_panic" \in DOMAIN run THEN "bad:listing-panic"
  ELSE IF "lst" \in DOMAIN run /\ ~ListingOk(T, d.den, run.lst) THEN "bad:listing"
  ELSE "ok"
\* flat and deep listings coincide when no variable-free sub-expression contains an operator
ListingsCoincide(d, runs) ==
  HasConstOpSub(d.den) \/ \A a, b \in 1..Len(runs) :
     ("lst" \in DOMAIN runs[a] /\ "lst" \in DOMAIN runs[b]) => runs[a].lst = runs[b].lst
RunMust(run) == IF run.outcome = "err" THEN "ok" ELSE "bad:accepted-" \o run.outcome
RunFree(run) == IF run.outcome \in {"ok", "err"} THEN "ok" ELSE "bad:" \o run.outcome

\* all accepting runs of an unconstrained text must agree with each other
Agree(T, runs) ==
  \A a, b \in 1..Len(runs) :
    (runs[a].outcome = "ok" /\ runs[b].outcome = "ok" /\ ~Opaque(runs[a]) /\ ~Opaque(runs[b])) =>
       (runs[a].vars = runs[b].vars /\ Same(T, runs[a].den, runs[b].den))

(* Known finding F13: a text in "binary function style without parentheses" (`/ 1 2 * 3`, which the library's own tests   *)
(* accept) - it starts with a binary-only operator, or has one directly after `(`, or two operands side by side, or `)(` -   *)
(* may be accepted by both parsers with different meanings.  Classification computed from the tokens of the text.          *)
PrefixStyle(T, txt) ==
  LET l == Lex(T, txt) IN
  IF l.st # "ok" THEN FALSE
  ELSE LET d == Desugar(T, l.toks)
           tk == IF d.st = "ok" THEN d.toks ELSE l.toks
           operand(t) == t.t \in {"num", "var", "const"}
           binOnly(t) == t.t = "op" /\ ~T[t.v].un
       IN Len(tk) > 0 /\
          ( \/ binOnly(tk[1])
            \/ \E j \in 1..(Len(tk) - 1) :
                  \/ (tk[j].t = "open" /\ binOnly(tk[j + 1]))
                  \/ (operand(tk[j]) /\ operand(tk[j + 1]))
                  \/ (tk[j].t = "close" /\ tk[j + 1].t = "open") )
RECURSIVE FirstBad(_, _)
FirstBad(vs, k) == IF k > Len(vs) THEN 0 ELSE IF vs[k] # "ok" THEN k ELSE FirstBad(vs, k + 1)

Judge(r) ==
  LET T   == TabOf(r)
      cls == Classify(T, r.text)
      d   == IF cls = "wf" THEN Den(T, r.text) ELSE [st |-> "na"]
      vs  == IF cls = "wf" THEN Vars(d.toks) ELSE <<>>
      rv  == [k \in 1..Len(r.runs) |->
                CASE cls = "wf"   -> RunWf(T, d, vs, r.runs[k])
                  [] cls = "must" -> RunMust(r.runs[k])
                  [] OTHER        -> RunFree(r.runs[k])]
      b   == FirstBad(rv, 1)
  IN IF b # 0 THEN <<cls, rv[b], r.runs[b].entry>>
     ELSE IF cls \in {"free", "unspec"} /\ ~Agree(T, r.runs)
          THEN <<cls, IF cls = "free" /\ PrefixStyle(T, r.text) THEN "bad:disagree[F13: prefix-style text]" ELSE "bad:disagree", "*">>
     ELSE IF cls = "wf" /\ ~ListingsCoincide(d, r.runs) THEN <<cls, "bad:listings-differ", "*">>
     ELSE <<cls, "ok", "*">>

Verdicts == i <= Len(Rec) => PrintT(<<"V", Rec[i].case>> \o Judge(Rec[i]))
AllJudged == TLCGet("stats").diameter = Len(Rec)
=============================================================================
