---------------------------- MODULE Judge_Float ----------------------------
(* Judge of the recorded float grid (C19): every record is checked against the axioms of FloatSem, special     *)
(* values against the class table below, and parsed infix / call-form evaluation must give the very same value   *)
(* as the direct application.                                                                                    *)
EXTENDS FloatSem, Json, IOUtils
Rec == ndJsonDeserialize(IOEnv.TRACE)
VARIABLE i
Init == i = 1
Next == i <= Len(Rec) /\ i' = i + 1

ClsOf(r) == IF r.c \in {"fin", "big"} THEN "fin" ELSE r.c
Zeroish(c) == c \in {"zero", "nzero"}
\* expected class of op(special): "any" where IEEE leaves room or the table is silent
Sp1(op, a) ==
  IF a = "nan" THEN (IF op \in {"+", "-"} \/ TRUE THEN "nan" ELSE "nan")
  ELSE CASE op \in {"+"} -> (CASE a = "one" -> "fin" [] a \in {"mone", "two", "half", "tiny", "huge"} -> "fin" [] OTHER -> a)
    [] op = "-" -> (CASE a = "pinf" -> "ninf" [] a = "ninf" -> "pinf" [] a = "zero" -> "nzero" [] a = "nzero" -> "zero" [] OTHER -> "fin")
    [] op = "abs" -> (CASE a \in {"pinf", "ninf"} -> "pinf" [] a \in {"zero", "nzero"} -> "zero" [] OTHER -> "fin")
    [] op = "sqrt" -> (CASE a = "pinf" -> "pinf" [] a \in {"ninf", "mone"} -> "nan" [] a = "zero" -> "zero" [] a = "nzero" -> "nzero" [] OTHER -> "finz")
    [] op \in {"ln", "log", "log2", "log10"} -> (CASE a = "pinf" -> "pinf" [] a \in {"ninf", "mone"} -> "nan" [] a \in {"zero", "nzero"} -> "ninf" [] a = "one" -> "zero" [] OTHER -> "fin")
    [] op = "exp" -> (CASE a = "pinf" -> "pinf" [] a = "ninf" -> "zero" [] a = "huge" -> "pinf" [] OTHER -> "fin")
    [] op \in {"sin", "cos", "tan"} -> (CASE a \in {"pinf", "ninf"} -> "nan" [] OTHER -> "any")
    [] op \in {"asin", "acos"} -> (CASE a \in {"pinf", "ninf", "two", "huge"} -> "nan" [] OTHER -> "any")
    [] op = "atan" -> (CASE a \in {"pinf", "ninf"} -> "fin" [] OTHER -> "any")
    [] op \in {"floor", "ceil", "round", "trunc"} -> (CASE a \in {"pinf", "ninf"} -> a [] OTHER -> "any")
    [] op = "fract" -> (CASE a \in {"pinf", "ninf"} -> "nan" [] OTHER -> "any")
    [] op = "signum" -> (CASE a \in {"pinf", "zero", "one", "two", "half", "tiny", "huge"} -> "fin" [] OTHER -> "fin")
    [] op = "tanh" -> (CASE a \in {"pinf", "ninf"} -> "fin" [] OTHER -> "any")
    [] op \in {"sinh", "cbrt", "asinh"} -> (CASE a \in {"pinf", "ninf"} -> a [] OTHER -> "any")
    [] op = "cosh" -> (CASE a \in {"pinf", "ninf"} -> "pinf" [] OTHER -> "any")
    [] op = "acosh" -> (CASE a = "pinf" -> "pinf" [] a \in {"ninf", "zero", "nzero", "mone", "half"} -> "nan" [] OTHER -> "any")
    [] op = "atanh" -> (CASE a \in {"pinf", "ninf", "two", "huge"} -> "nan" [] a = "one" -> "pinf" [] a = "mone" -> "ninf" [] OTHER -> "any")
    [] OTHER -> "any"
IsInf(a) == a \in {"pinf", "ninf"}
Sp2(op, a, b) ==
  CASE op \in {"+", "-", "*", "/"} /\ (a = "nan" \/ b = "nan") -> "nan"
    [] op = "+" /\ IsInf(a) /\ IsInf(b) -> IF a = b THEN a ELSE "nan"
    [] op = "-" /\ IsInf(a) /\ IsInf(b) -> IF a = b THEN "nan" ELSE a
    [] op \in {"+", "-"} /\ IsInf(a) -> a
    [] op = "+" /\ IsInf(b) -> b
    [] op = "-" /\ IsInf(b) -> IF b = "pinf" THEN "ninf" ELSE "pinf"
    [] op = "*" /\ ((IsInf(a) /\ Zeroish(b)) \/ (IsInf(b) /\ Zeroish(a))) -> "nan"
    [] op = "/" /\ Zeroish(a) /\ Zeroish(b) -> "nan"
    [] op = "/" /\ IsInf(a) /\ IsInf(b) -> "nan"
    [] op = "/" /\ Zeroish(b) /\ ~Zeroish(a) -> "inf"                   \* sign from both operands
    [] op = "/" /\ IsInf(b) -> "zeroish"
    [] op \in {"min", "max"} /\ a = "nan" /\ b = "nan" -> "nan"
    [] op \in {"min", "max"} /\ (a = "nan" \/ b = "nan") -> "notnan"     \* the other operand
    [] op = "min" /\ (a = "ninf" \/ b = "ninf") -> "ninf"
    [] op = "max" /\ (a = "pinf" \/ b = "pinf") -> "pinf"
    [] op = "^" /\ b \in {"zero", "nzero"} -> "fin"                      \* x^0 = 1 even for nan
    [] op = "^" /\ a = "one" -> "fin"                                    \* 1^y = 1 even for nan
    [] op = "^" /\ (a = "nan" \/ b = "nan") -> "nan"
    \* IEEE 754 / C99 pow, which the Rust primitive powf follows: signed zeros and infinities as base, infinite exponents.
    \* Among the special exponents only 1 and -1 are odd integers (2 and 1e300 are even, 0.5 and 1e-300 no integers).
    [] op = "^" /\ a = "zero" -> IF b \in {"mone", "ninf"} THEN "pinf" ELSE "pzero"
    [] op = "^" /\ a = "nzero" -> (CASE b = "one" -> "nzero" [] b = "mone" -> "ninf" [] b = "ninf" -> "pinf" [] OTHER -> "pzero")
    [] op = "^" /\ a = "pinf" -> IF b \in {"mone", "ninf"} THEN "pzero" ELSE "pinf"
    [] op = "^" /\ a = "ninf" -> (CASE b = "one" -> "ninf" [] b = "mone" -> "nzero" [] b = "ninf" -> "pzero" [] OTHER -> "pinf")
    [] op = "^" /\ a = "mone" /\ IsInf(b) -> "fin"
    [] op = "^" /\ a = "mone" /\ b \in {"half", "tiny"} -> "nan"
    [] op = "^" /\ a \in {"two", "huge"} /\ IsInf(b) -> IF b = "pinf" THEN "pinf" ELSE "pzero"
    [] op = "^" /\ a \in {"half", "tiny"} /\ IsInf(b) -> IF b = "pinf" THEN "pzero" ELSE "pinf"
    [] op = "atan2" /\ (a = "nan" \/ b = "nan") -> "nan"
    [] op = "atan2" -> "finz"
    [] OTHER -> "any"
ClassOk(want, r) ==
  CASE want = "any" -> r.c # "panic"
    [] want = "fin" -> r.c \in {"fin", "big", "zero", "nzero"}
    [] want = "finz" -> r.c \in {"fin", "big", "zero", "nzero"}
    [] want = "inf" -> r.c \in {"pinf", "ninf"}
    [] want = "zeroish" -> r.c \in {"zero", "nzero"}
    [] want = "notnan" -> r.c \notin {"nan", "panic"}
    [] want = "zero" -> r.c \in {"zero", "nzero"}
    [] want = "pzero" -> r.c = "zero"
    [] OTHER -> r.c = want

(* Rounding family where the unit in the last place of the argument is 1 or 1/2, and just below 1/2.  d2 = 2 (r - x), *)
(* exact in floating point there.  int: integer-valued argument; inthalf: integer + 1/2; belowhalf: the largest value < 1/2 *)
ExactRule(op, cls, neg, d2, r) ==
  CASE cls = "int" -> IF op = "fract" THEN Zeroish(r.c) ELSE d2 = 0
    [] cls = "inthalf" ->
         (CASE op = "round" -> d2 = (IF neg THEN -1 ELSE 1)            \* ties away from zero
            [] op = "floor" -> d2 = -1
            [] op = "ceil"  -> d2 = 1
            [] op = "trunc" -> d2 = (IF neg THEN 1 ELSE -1)
            [] op = "fract" -> r.c = "fin" /\ r.v = (IF neg THEN -(S \div 2) ELSE S \div 2)
            [] OTHER -> FALSE)
    [] cls = "belowhalf" ->
         (CASE op \in {"round", "trunc"} -> Zeroish(r.c)
            [] op = "floor" -> IF neg THEN r.c = "fin" /\ r.v = -S ELSE Zeroish(r.c)
            [] op = "ceil"  -> IF neg THEN Zeroish(r.c) ELSE r.c = "fin" /\ r.v = S
            [] op = "fract" -> d2 = 0
            [] OTHER -> FALSE)
    [] OTHER -> FALSE
Judge(r) ==
  IF r.r.c = "panic" THEN "bad:panic"
  ELSE IF "exact" \in DOMAIN r THEN (IF ExactRule(r.opa, r.exact, r.neg, r.d2, r.r) THEN "ok" ELSE "bad:rounding-family-exact")
  ELSE IF "special" \in DOMAIN r
       THEN (IF ClassOk(IF r.ar = 1 THEN Sp1(r.opa, r.special) ELSE Sp2(r.opa, r.special, r.special2), r.r) THEN "ok" ELSE "bad:special-class")
  ELSE IF r.ar = 0 THEN Const0(r.opa, r.r, r.aux)
  ELSE IF ("via" \in DOMAIN r /\ r.via # "same") \/ ("via_call" \in DOMAIN r /\ r.via_call # "same") THEN "bad:parsed-expression-differs"
  ELSE IF r.ar = 1 THEN Un1(r.opa, r.x.v, r.r, r.aux)
  ELSE Bin2(r.opa, r.x.v, r.y.v, r.r, r.aux)
Verdicts == i <= Len(Rec) => PrintT(<<"V", Rec[i].case, Rec[i].ty, Judge(Rec[i]), Rec[i].opa>>)
AllJudged == TLCGet("stats").diameter - 1 = Len(Rec)
=============================================================================
