INIT Init
NEXT Next
INVARIANT Verdicts
POSTCONDITION AllJudged
CHECK_DEADLOCK FALSE
