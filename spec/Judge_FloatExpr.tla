---------------------------- MODULE Judge_FloatExpr ----------------------------
(* Composite expressions over the default float table (C19: "applied directly and through parsed expressions in infix  *)
(* and call form"): the meaning of the text by the reference semantics over the table mirrored from the implementation  *)
(* (with the documented meaning of + - * / min max and the signs) is evaluated in exact rational arithmetic at the       *)
(* dyadic point and compared with what the flat and the deep expression over f64 and f32 returned.  Dyadic values of     *)
(* small magnitude are computed without rounding by the float types, so the comparison is exact; anything else is        *)
(* inconclusive.   <<"V", case, k, "floatexpr", verdict>>                                                                *)
EXTENDS Piecewise, Json, IOUtils
Rec == ndJsonDeserialize(IOEnv.TRACE)
T == Rec[1].table
VARIABLE i
Init == i = 2
Next == i <= Len(Rec) /\ i' = i + 1
RPt(r) == [names |-> [j \in 1..Len(r.point) |-> r.point[j][1]], n |-> [j \in 1..Len(r.point) |-> r.point[j][2]],
           d |-> [j \in 1..Len(r.point) |-> r.point[j][3]]]
RunVerdict(ref, run) ==
  IF run.outcome = "panic" THEN "bad:panic"
  ELSE IF run.outcome # "ok" THEN "bad:outcome-" \o run.outcome
  ELSE IF run.inexact THEN "inconclusive: value not a small dyadic fraction"
  ELSE IF run.n * ref.d = ref.n * run.d THEN "ok" ELSE "bad:value"
Judge(r) ==
  LET d == Den(T, r.text) IN
  IF d.st # "ok" THEN [q \in 1..Len(r.res) |-> "inconclusive: text"]
  ELSE LET ref == RatEval(T, d.den, RPt(r)) IN
       IF ~ref.ok THEN [q \in 1..Len(r.res) |-> "inconclusive: reference value not exact (division by zero, large numbers)"]
       ELSE [q \in 1..Len(r.res) |-> RunVerdict(ref, r.res[q])]
Verdicts == i <= Len(Rec) => \A q \in 1..Len(Judge(Rec[i])) : PrintT(<<"V", Rec[i].case, q, "floatexpr", Judge(Rec[i])[q]>>)
AllJudged == TLCGet("stats").diameter = Len(Rec)
=============================================================================
