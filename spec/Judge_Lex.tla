---------------------------- MODULE Judge_Lex ----------------------------
(* Judge of recorded token streams of the real tokenizer against the abstract lexical rules (C13, C08). *)
EXTENDS Grammar, Json, IOUtils
Rec == ndJsonDeserialize(IOEnv.TRACE)
T0 == Rec[1].table
VARIABLE i
Init == i = 2
Next == i <= Len(Rec) /\ i' = i + 1
TabOf(r) == IF "table" \in DOMAIN r THEN r.table ELSE T0
HasCommaIn(txt) == \E j \in 1..Len(txt) : txt[j] = COMMA
Judge(r) ==
  LET T == TabOf(r) IN
  IF r.st \notin {"ok", "err"} THEN "bad:" \o r.st
  ELSE IF HasCommaIn(r.text)
  THEN LET a == Tokens(T, r.text) IN
       IF a.st = "ok" /\ WellFormed(T, a.toks)
       THEN (IF r.st = "ok" /\ r.toks = a.toks /\ r.pre THEN "ok" ELSE "bad:call-form-tokens")
       ELSE "ok"
  ELSE LET a == Lex(T, r.text) IN
       CASE a.st = "unspec" -> "ok"
         [] a.st = "ok"  -> IF r.st = "ok" /\ r.toks = a.toks THEN "ok" ELSE "bad:tokens"
         [] a.st = "err" -> IF r.st = "err" THEN "ok" ELSE "bad:accepted-illegal-text"
Verdicts == i <= Len(Rec) => PrintT(<<"V", Rec[i].case, "lex", Judge(Rec[i]), "tokenize">>)
AllJudged == TLCGet("stats").diameter = Len(Rec)
=============================================================================
