---------------------------- MODULE Judge_Sched ----------------------------
(* Judge of recorded tracker runs: [case, kind, n, base, order, steps] where steps are the answers of the   *)
(* real tracker; recomputed here from the order with the alive-vector meaning.                              *)
EXTENDS Integers, Sequences, FiniteSets, TLC, Json, IOUtils
Rec == ndJsonDeserialize(IOEnv.TRACE)
VARIABLE i
Init == i = 1
Next == i <= Len(Rec) /\ i' = i + 1
RECURSIVE Steps(_, _, _, _)
Steps(n, ord, p, applied) ==
  IF p > Len(ord) THEN <<>>
  ELSE LET idx == ord[p]
           dead(j) == (j - 1) \in applied
           n1 == CHOOSE j \in 0..idx : ~dead(j) /\ \A k \in (j + 1)..idx : dead(k)
           n2 == CHOOSE j \in (idx + 1)..(n - 1) : ~dead(j) /\ \A k \in (idx + 1)..(j - 1) : dead(k)
       IN <<[idx |-> idx, prev |-> idx - n1, next |-> n2 - idx]>> \o Steps(n, ord, p + 1, applied \cup {idx})
Judge(r) == IF r.outcome # "ok" THEN "bad:" \o r.outcome
            ELSE IF r.steps = Steps(r.n, r.order, 1, {}) THEN "ok" ELSE "bad:tracker-answers"
Verdicts == i <= Len(Rec) => PrintT(<<"V", Rec[i].case, Rec[i].kind, Judge(Rec[i]), "tracker">>)
AllJudged == TLCGet("stats").diameter - 1 = Len(Rec)
=============================================================================
