---------------------------- MODULE Judge_Stmts ----------------------------
(* Trace validation of recorded statement sessions against Stmts.tla: the store is rebuilt line by line from the       *)
(* specification's effect, every observed outcome is matched against it.  <<"V", case, line, "stmt", verdict>>          *)
EXTENDS Stmts, Json, IOUtils
Rec == ndJsonDeserialize(IOEnv.TRACE)
T0 == Rec[1].table
VARIABLE i
Init == i = 2
Next == i <= Len(Rec) /\ i' = i + 1
LineVerdict(T, eff, res) ==
  IF res.outcome = "panic" THEN "bad:panic"
  ELSE CASE eff.o = "free" -> "inconclusive: line not constrained"
    [] eff.o = "err" -> IF res.outcome = "err" THEN "ok" ELSE "bad:accepted-" \o res.outcome
    [] eff.o = "evalerr" -> IF res.outcome = "evalerr" THEN "ok" ELSE "bad:evaluated-" \o res.outcome
    [] eff.o = "assigned" ->
         IF res.outcome # "assigned" THEN "bad:not-assigned-" \o res.outcome
         ELSE IF res.name # eff.ent.name THEN "bad:name"
         ELSE IF res.kind # eff.ent.k THEN "bad:kind"
         ELSE IF res.vars # eff.ent.vars THEN "bad:vars" ELSE "ok"
    [] eff.o = "value" ->
         IF res.outcome # "value" THEN "bad:no-value-" \o res.outcome
         ELSE LET f == FieldSame(T, res.den, eff.den, <<>>) IN
              IF f = "different" THEN "bad:value" ELSE IF f = "inconclusive" THEN "inconclusive: no usable point" ELSE "ok"
RECURSIVE Walk(_, _, _, _, _)
Walk(T, r, store, k, acc) ==
  IF k > Len(r.lines) THEN acc
  ELSE LET eff == LineEffect(T, store, r.lines[k])
           v == LineVerdict(T, eff, r.res[k])
       IN IF eff.o = "free"       \* the store is unknown from here on
          THEN \A q \in k..Len(r.lines) : PrintT(<<"V", r.case, q, "stmt", "inconclusive: after an unconstrained line">>)
          ELSE Walk(T, r, eff.store, k + 1, acc /\ PrintT(<<"V", r.case, k, "stmt", v>>))
Verdicts == i <= Len(Rec) => Walk(T0, Rec[i], <<>>, 1, TRUE)
AllJudged == TLCGet("stats").diameter = Len(Rec)
=============================================================================
