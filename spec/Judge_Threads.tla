---------------------------- MODULE Judge_Threads ----------------------------
(* Trace validation of recorded multi-thread runs (C20).  Events of different threads are NOT ordered against     *)
(* each other: no action of the Threads specification changes shared state that another action reads (the pool is  *)
(* immutable, the regex cell only delays), so a recorded run is a behaviour of the specification iff every event    *)
(* is explainable in isolation - i.e. equals the sequential function of its arguments:                               *)
(*   parse  : meaning of the text by the reference semantics (as in Judge_Expr)                                      *)
(*   eval   : meaning of the shared expression with every variable renamed to the thread's value                      *)
(*   fparse / feval : bit-identical to the sequential run of the same call                                            *)
(*   dump   : the shared expressions are unchanged after all evaluations                                              *)
EXTENDS Grammar, Json, IOUtils
Rec == ndJsonDeserialize(IOEnv.TRACE)
T0 == Rec[1].table
TabOf(r) == IF "table" \in DOMAIN r THEN r.table ELSE T0
VARIABLE i
Init == i = 2
Next == i <= Len(Rec) /\ i' = i + 1
RECURSIVE Rename(_, _)
Rename(t, sfx) ==
  CASE t.k = "var" -> Var(t.v \o sfx)
    [] t.k = "un"  -> Un(t.o, Rename(t.a, sfx))
    [] t.k = "bin" -> Bin(t.o, Rename(t.l, sfx), Rename(t.r, sfx))
    [] OTHER -> t
Judge(r) ==
  LET T == TabOf(r) IN
  CASE r.act = "parse" ->
         LET d == Den(T, r.text) run == r.runs[1] IN
         IF run.outcome \notin {"ok", "err"} THEN "bad:" \o run.outcome
         ELSE IF d.st = "ok" THEN (IF run.outcome = "ok" /\ run.vars = Vars(d.toks) /\ Same(T, run.den, d.den) THEN "ok" ELSE "bad:parse-result")
         ELSE IF Classify(T, r.text) = "must" THEN (IF run.outcome = "err" THEN "ok" ELSE "bad:accepted") ELSE "ok"
    [] r.act = "eval" ->
         LET d == Den(T, r.text) IN
         IF r.outcome # "ok" THEN "bad:eval-" \o r.outcome
         ELSE IF Same(T, r.den, Rename(d.den, r.suffix)) THEN "ok" ELSE "bad:eval-result"
    [] r.act \in {"fparse", "feval"} -> IF r.hi = r.seq_hi /\ r.lo = r.seq_lo THEN "ok" ELSE "bad:differs-from-sequential-run"
    [] r.act = "dump" -> IF r.term = "same" /\ r.flat = "same" /\ r.deep = "same" THEN "ok" ELSE "bad:expression-modified-by-evaluation"
    [] OTHER -> "bad:" \o r.act
Verdicts == i <= Len(Rec) => PrintT(<<"V", Rec[i].case, "t", Judge(Rec[i]), Rec[i].act>>)
AllJudged == TLCGet("stats").diameter = Len(Rec)
=============================================================================
