---------------------------- MODULE Judge_Val ----------------------------
(* Judge of recorded value-operator applications: [w, op, ar, a, b, res : [direct, var, lit]].  The        *)
(* requirement is recomputed here from (w, op, operands) with ValSem; the copy TLC printed with the case is  *)
(* not trusted.  A panic anywhere is a violation of C17; a result that does not meet a requirement is         *)
(* attributed to the property the requirement stems from.                                                     *)
EXTENDS ValSem, TLC, Json, IOUtils
Rec == ndJsonDeserialize(IOEnv.TRACE)
VARIABLE i
Init == i = 1
Next == i <= Len(Rec) /\ i' = i + 1
Vias == <<"direct", "var", "lit">>
ReqOf(r) ==
  IF r.w = 64 THEN Req64(r)
  ELSE IF r.ar = 1 THEN Req1(r.w, r.op, r.a) ELSE Req2(r.w, r.op, r.a, r.b)
ViaVerdict(req, got) ==
  IF got.k = "skip" THEN "ok"
  ELSE IF got.k = "panic" THEN "bad:panic"
  ELSE IF got.k \in {"parse_err", "eval_err"} THEN "bad:expression-" \o got.k
  ELSE IF Meets(req, got) THEN "ok" ELSE "bad:" \o req.src \o "-" \o req.r
RECURSIVE FirstBad(_, _)
FirstBad(vs, k) == IF k > Len(vs) THEN 0 ELSE IF vs[k] # "ok" THEN k ELSE FirstBad(vs, k + 1)
Judge(r) ==
  LET req == ReqOf(r)
      vv == [k \in 1..3 |-> ViaVerdict(req, r.res[Vias[k]])]
      b == FirstBad(vv, 1)
  IN IF b = 0 THEN <<req.src, "ok", "*">> ELSE <<req.src, vv[b], Vias[b]>>
Verdicts == i <= Len(Rec) => PrintT(<<"V", Rec[i].case>> \o Judge(Rec[i]))
AllJudged == TLCGet("stats").diameter - 1 = Len(Rec)
=============================================================================
