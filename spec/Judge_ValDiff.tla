---------------------------- MODULE Judge_ValDiff ----------------------------
(* Judge of recorded derivatives of value-typed expressions: the derivative's structure comes from the            *)
(* verif_dump hook (flat nodes, operators, application order) and is turned into a tree with FlatImpl.Eval;        *)
(* the antiderivative is parsed from the text by the reference.  Verdict: d/dt PJet(e) = PJet(d).                   *)
EXTENDS Piecewise, FlatImpl, Json, IOUtils
Rec == ndJsonDeserialize(IOEnv.TRACE)
T == Rec[1].table
VARIABLE i
Init == i = 2
Next == i <= Len(Rec) /\ i' = i + 1
TreeOfDump(res) ==
  LET nodes == [j \in 1..Len(res.nodes) |->
                 [kind |-> IF res.nodes[j].k = "num" THEN "num" ELSE "var",
                  val  |-> IF res.nodes[j].k = "num" THEN res.nodes[j].v ELSE Var(res.dvars[res.nodes[j].i]),
                  un   |-> res.nodes[j].un]]
      ops == [j \in 1..Len(res.ops) |-> [o |-> res.ops[j].idx, un |-> res.ops[j].un]]
  IN Eval([nodes |-> nodes, ops |-> ops, prio |-> res.prio])
Names(r) == [j \in 1..Len(r.point) |-> r.point[j][1]]
RPt(r) == [names |-> Names(r), n |-> [j \in 1..Len(r.point) |-> r.point[j][2]], d |-> [j \in 1..Len(r.point) |-> r.point[j][3]]]
Env(r, k) == [names |-> Names(r), jets |-> [j \in 1..Len(r.point) |-> IF r.point[j][1] = k THEN JLin(FRat(r.point[j][2], r.point[j][3]), 1)
                                                                       ELSE JConst(FRat(r.point[j][2], r.point[j][3]))]]
OneVerdict(r, e, vars, res) ==
  IF res.k > Len(vars) THEN (IF res.outcome = "err" THEN "ok" ELSE "bad:index-not-rejected")
  ELSE IF res.outcome = "panic" THEN "bad:panic"
  ELSE IF res.outcome = "err" THEN "inconclusive: differentiation refused (" \o res.msg \o ")"
  ELSE IF res.dvars # vars THEN "bad:vars"
  ELSE LET x == vars[res.k]
           je == PJet(T, e, Env(r, x), RPt(r))
           jd == PJet(T, TreeOfDump(res), Env(r, x), RPt(r))
       IN IF je.st # "jet" THEN "inconclusive: original " \o (IF je.st = "bad" THEN je.why ELSE "none")
          ELSE IF jd.st = "bad" /\ jd.why = "error value" THEN "bad:error-value-in-derivative"
          \* conditions stay conditions: where the original is a number, a derivative that uses a comparison as a number
          \* (it would evaluate to a boolean or an error value) is not the derivative of the selected branch
          ELSE IF jd.st = "bad" /\ jd.why = "comparison used as number" THEN "bad:condition-used-as-number-in-derivative"
          ELSE IF jd.st # "jet" THEN "inconclusive: derivative " \o (IF jd.st = "bad" THEN jd.why ELSE "none")
          ELSE IF JDer(je.j) # Trunc(jd.j) THEN "bad:derivative"
          \* integers and floats mixed: where the original evaluates with integer coordinates and the derivative evaluates with
          \* float coordinates, the derivative must not be an error (value) with integer coordinates
          ELSE IF "at" \in DOMAIN res /\ res.at.orig_int \in {"int", "float"} /\ res.at.der_float \in {"int", "float"}
                  /\ res.at.der_int \in {"err", "evalerr", "panic", "none"} THEN "bad:derivative-fails-on-integer-coordinates"
          ELSE "ok"
\* classification of refuted derivatives for the known findings (see known_findings.json)
RECURSIVE HasIntLit(_)
HasIntLit(t) == CASE t.k = "num" -> ("v" \in DOMAIN t /\ \A j \in 1..Len(t.v) : t.v[j] # 46)
                  [] t.k = "un" -> HasIntLit(t.a) [] t.k = "bin" -> HasIntLit(t.l) \/ HasIntLit(t.r) [] OTHER -> FALSE
RECURSIVE HasDivPow(_)
HasDivPow(t) == CASE t.k = "un" -> HasDivPow(t.a)
                  [] t.k = "bin" -> T[t.o].sem \in {"div", "pow"} \/ HasDivPow(t.l) \/ HasDivPow(t.r) [] OTHER -> FALSE
RECURSIVE HasConstFalseIf(_, _)
HasConstFalseIf(t, rpt) ==
  CASE t.k = "un" -> HasConstFalseIf(t.a, rpt)
    [] t.k = "bin" -> \/ (T[t.o].sem = "if" /\ TreeVars(t.r) = {} /\ LET c == CondVal(T, t.r, rpt) IN c.ok /\ ~c.b)
                      \/ HasConstFalseIf(t.l, rpt) \/ HasConstFalseIf(t.r, rpt)
    [] OTHER -> FALSE
RECURSIVE HasVarExpPow(_)
HasVarExpPow(t) == CASE t.k = "un" -> HasVarExpPow(t.a)
                     [] t.k = "bin" -> (T[t.o].sem = "pow" /\ TreeVars(t.r) # {}) \/ HasVarExpPow(t.l) \/ HasVarExpPow(t.r) [] OTHER -> FALSE
Classify(r, e, v) ==
  IF v \notin {"bad:derivative", "bad:error-value-in-derivative", "bad:derivative-fails-on-integer-coordinates"} THEN v
  ELSE IF v = "bad:derivative-fails-on-integer-coordinates"
       THEN (IF HasVarExpPow(e) THEN v \o "[F6: ln of an integer base]" ELSE v)
  ELSE IF HasIntLit(e) /\ HasDivPow(e) THEN v \o "[F6: integer literal with / or ^]"
  ELSE IF HasConstFalseIf(e, RPt(r)) THEN v \o "[F10: constant false condition]"
  ELSE v
Judge(r) ==
  LET d == Den(T, r.text) IN
  IF d.st # "ok" THEN <<"inconclusive: text">>
  ELSE [q \in 1..Len(r.res) |-> Classify(r, d.den, OneVerdict(r, d.den, Vars(d.toks), r.res[q]))]
Verdicts == i <= Len(Rec) => \A q \in 1..Len(Judge(Rec[i])) : PrintT(<<"V", Rec[i].case, q, "valdiff", Judge(Rec[i])[q]>>)
AllJudged == TLCGet("stats").diameter = Len(Rec)
=============================================================================
