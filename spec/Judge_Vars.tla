---------------------------- MODULE Judge_Vars ----------------------------
(* Judge of recorded variable behaviour: [text, forms : Seq([form, outcome, vars, evals : Seq([mode, len,      *)
(* outcome, den])])].  The k-th passed value was the term Var(name_k), so a wrong binding shows up as a wrong    *)
(* name in the value.                                                                                           *)
EXTENDS Grammar, Json, IOUtils
Rec == ndJsonDeserialize(IOEnv.TRACE)
T0 == Rec[1].table
VARIABLE i
Init == i = 2
Next == i <= Len(Rec) /\ i' = i + 1
TabOf(r) == IF "table" \in DOMAIN r THEN r.table ELSE T0
EvalOk(T, d, n, e) ==
  LET should == IF e.mode = "relaxed" THEN e.len >= n ELSE e.len = n IN
  IF should THEN e.outcome = "ok" /\ Same(T, e.den, d.den) ELSE e.outcome = "err"
\* a form may list additional variables that do not occur (field ghost): the list is the sorted union
FormVerdict(T, d, vs0, f) ==
  LET vs == IF "ghost" \in DOMAIN f THEN SortNames(Range(vs0) \cup Range(f.ghost)) ELSE vs0 IN
  IF f.outcome # "ok" THEN "bad:outcome-" \o f.outcome
  ELSE IF f.vars # vs THEN "bad:variable-list"
  ELSE IF \E k \in 1..Len(f.evals) : f.evals[k].outcome = "panic" THEN "bad:panic-on-slice-length"
  ELSE IF \E k \in 1..Len(f.evals) : ~EvalOk(T, d, Len(vs), f.evals[k]) THEN "bad:binding-or-arity"
  ELSE "ok"
RECURSIVE FirstBad(_, _)
FirstBad(vs, k) == IF k > Len(vs) THEN 0 ELSE IF vs[k] # "ok" THEN k ELSE FirstBad(vs, k + 1)
Judge(r) ==
  LET T == TabOf(r)
      d == Den(T, r.text)
  IN IF d.st # "ok" THEN <<"other", "ok", "*">>
     ELSE LET vs == Vars(d.toks)
              fv == [k \in 1..Len(r.forms) |-> FormVerdict(T, d, vs, r.forms[k])]
              b  == FirstBad(fv, 1)
          IN IF b = 0 THEN <<"wf", "ok", "*">> ELSE <<"wf", fv[b], r.forms[b].form>>
Verdicts == i <= Len(Rec) => PrintT(<<"V", Rec[i].case>> \o Judge(Rec[i]))
AllJudged == TLCGet("stats").diameter = Len(Rec)
=============================================================================
