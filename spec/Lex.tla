---------------------------- MODULE Lex ----------------------------
(* Abstract (documented) lexical rules of exmex, written declaratively.                          *)
(*                                                                                                *)
(* A table T is a sequence of operator records                                                    *)
(*   [name : Seq(codepoint), bin, un, const : BOOLEAN, prio : 0..99, comm : BOOLEAN]              *)
(* Operator ids are 1-based positions in T.                                                       *)
(*                                                                                                *)
(* Tokens: [t |-> "num"|"var"|"op"|"const"|"open"|"close"|"comma", v |-> payload]                 *)
(*   num: literal text, var: name, op/const: operator id, others: 0.                              *)
(*                                                                                                *)
(* Lex(T, txt) = [st |-> "ok", toks |-> ...]                                                      *)
(*             | [st |-> "err"]            the text contains something that is no token            *)
(*             | [st |-> "unspec"]         behaviour the documentation does not fix                *)
EXTENDS Chars, FiniteSets

TNum(v)   == [t |-> "num",   v |-> v]
TVar(v)   == [t |-> "var",   v |-> v]
TOp(o)    == [t |-> "op",    v |-> o]
TConst(o) == [t |-> "const", v |-> o]
TOpen     == [t |-> "open",  v |-> 0]
TClose    == [t |-> "close", v |-> 0]
TComma    == [t |-> "comma", v |-> 0]

OpIds(T)  == 1..Len(T)
BinIds(T) == {o \in OpIds(T) : T[o].bin}
UnIds(T)  == {o \in OpIds(T) : T[o].un}

(* A number literal is a maximal run of digits and dots with at least one digit and at most one  *)
(* dot ("digits with at most one inner, leading or trailing dot").                                *)
LiteralLen(txt, i) ==
  LET n == NumRun(txt, i)
      d == CountDots(txt, i, n)
  IN IF (n > 1 /\ d < 2) \/ (n = 1 /\ d = 0) THEN n ELSE 0

(* An operator name matches at i if it is spelled exactly there; a name that is only unary or a   *)
(* constant additionally must not be continued by an identifier character that would make          *)
(* name+next an identifier (`sin4`, `PI5`, `Erwin`, `expx` are variables).                         *)
NameMatches(T, txt, i, o) ==
  LET nm == T[o].name
      e  == i + Len(nm)           \* position of the character after the name
  IN /\ StartsWithAt(txt, i, nm)
     /\ \/ T[o].bin
        \/ e > Len(txt)
        \/ ~IsIdent(SubSeq(txt, i, e))

MatchingOps(T, txt, i) == {o \in OpIds(T) : T[o].name[1] = txt[i] /\ NameMatches(T, txt, i, o)}
\* the longest matching operator name wins
LongestOp(T, txt, i) ==
  LET M == MatchingOps(T, txt, i)
  IN CHOOSE o \in M : \A p \in M : Len(T[p].name) <= Len(T[o].name)

RECURSIVE LexFrom(_, _, _, _)
LexFrom(T, txt, i, acc) ==
  IF i > Len(txt) THEN [st |-> "ok", toks |-> acc]
  ELSE LET c == txt[i] IN
    IF c = SP THEN LexFrom(T, txt, i + 1, acc)
    ELSE IF c = LP THEN LexFrom(T, txt, i + 1, Append(acc, TOpen))
    ELSE IF c = RP THEN LexFrom(T, txt, i + 1, Append(acc, TClose))
    ELSE IF c = COMMA THEN LexFrom(T, txt, i + 1, Append(acc, TComma))
    ELSE IF c = LB THEN
      LET r == FindRB(txt, i + 1) IN
      IF r = 0 THEN [st |-> "unspec"]                 \* unterminated brace: not fixed by the docs
      ELSE IF r = i + 1 THEN [st |-> "unspec"]        \* empty braces: not fixed by the docs
      ELSE LexFrom(T, txt, r + 1, Append(acc, TVar(SubSeq(txt, i + 1, r - 1))))
    ELSE LET n == LiteralLen(txt, i) IN
    IF n > 0 THEN LexFrom(T, txt, i + n, Append(acc, TNum(Sub(txt, i, n))))
    ELSE LET M == MatchingOps(T, txt, i) IN
    IF M # {} THEN
      LET o == CHOOSE q \in M : \A p \in M : Len(T[p].name) <= Len(T[q].name)   \* the longest name wins
          e == i + Len(T[o].name)
      IN \* an alphabetic *binary* name glued to identifier characters (`minx`): not fixed by the docs
         IF T[o].bin /\ e <= Len(txt) /\ IsIdent(SubSeq(txt, i, e)) THEN [st |-> "unspec"]
         ELSE LexFrom(T, txt, e, Append(acc, IF T[o].const THEN TConst(o) ELSE TOp(o)))
    ELSE IF IsLetter(c) THEN
      LET m == IdRun(txt, i) IN LexFrom(T, txt, i + m, Append(acc, TVar(Sub(txt, i, m))))
    ELSE [st |-> "err"]

Lex(T, txt) == LexFrom(T, txt, 1, <<>>)

(* ------------------------------------------------------------------------------------------------ *)
(* Call form: `op(a, b)` denotes `((a) op (b))` wherever it appears.  Desugaring is a rewrite on    *)
(* token sequences; the leftmost comma is rewritten first, so its first argument is comma-free.     *)
RECURSIVE FirstComma(_, _)
FirstComma(toks, i) == IF i > Len(toks) THEN 0 ELSE IF toks[i].t = "comma" THEN i ELSE FirstComma(toks, i + 1)

\* index of the open paren enclosing position c (0 if none)
RECURSIVE EnclosingOpen(_, _, _)
EnclosingOpen(toks, i, d) ==
  IF i < 1 THEN 0
  ELSE IF toks[i].t = "close" THEN EnclosingOpen(toks, i - 1, d + 1)
  ELSE IF toks[i].t = "open" THEN (IF d = 0 THEN i ELSE EnclosingOpen(toks, i - 1, d - 1))
  ELSE EnclosingOpen(toks, i - 1, d)
\* index of the close paren closing the group that contains position c (0 if none)
RECURSIVE EnclosingClose(_, _, _)
EnclosingClose(toks, i, d) ==
  IF i > Len(toks) THEN 0
  ELSE IF toks[i].t = "open" THEN EnclosingClose(toks, i + 1, d + 1)
  ELSE IF toks[i].t = "close" THEN (IF d = 0 THEN i ELSE EnclosingClose(toks, i + 1, d - 1))
  ELSE EnclosingClose(toks, i + 1, d)

RECURSIVE Desugar(_, _)
Desugar(T, toks) ==
  LET c == FirstComma(toks, 1) IN
  IF c = 0 THEN [st |-> "ok", toks |-> toks]
  ELSE LET p == EnclosingOpen(toks, c - 1, 0)
           q == EnclosingClose(toks, c + 1, 0)
       IN IF p <= 1 \/ q = 0 THEN [st |-> "err"]
          ELSE IF ~(toks[p - 1].t = "op" /\ T[toks[p - 1].v].bin) THEN [st |-> "err"]
          ELSE Desugar(T, SubSeq(toks, 1, p - 2) \o <<TOpen, TOpen>> \o SubSeq(toks, p + 1, c - 1)
                          \o <<TClose, toks[p - 1], TOpen>> \o SubSeq(toks, c + 1, q - 1)
                          \o <<TClose, TClose>> \o SubSeq(toks, q + 1, Len(toks)))

\* text -> token sequence without commas
Tokens(T, txt) ==
  LET l == Lex(T, txt) IN IF l.st # "ok" THEN l ELSE Desugar(T, l.toks)
=============================================================================
