---------------------------- MODULE LexImpl ----------------------------
(* Implementation-shaped model of src/parser.rs:                                                         *)
(*   Tokenize = tokenize_and_analyze: operators sorted reverse-alphabetically, first match, look-ahead   *)
(*              only for names that cannot be binary, literal tried before operators, brace scan,        *)
(*              call form rewritten on the fly with `close_additional_paren` / `open_paren_count`        *)
(*   Precond  = check_parsed_token_preconditions (7 pair rules, paren counter, last-token rule)          *)
(* Positions are code points; byte arithmetic is abstracted (the real code is additionally driven with   *)
(* multi-byte characters in the C06 replay).                                                             *)
(* CallStack = FALSE: one pending-call slot as in the pinned snapshot (defect F3)                        *)
(* CallStack = TRUE : a stack of pending calls (code after the fix of F3)                                *)
EXTENDS Ref
CONSTANT CallStack

\* operators sorted by name, descending (sort_unstable_by(|a, b| b.repr.cmp(a.repr)))
RECURSIVE SortDesc(_, _)
SortDesc(T, S) ==
  IF S = {} THEN <<>>
  ELSE LET m == CHOOSE x \in S : \A y \in S : StrLeq(T[y].name, T[x].name) IN <<m>> \o SortDesc(T, S \ {m})

FindOps(T, sorted, txt, i) ==
  LET ok(o) == LET nm == T[o].name e == i + Len(nm) IN
               /\ StartsWithAt(txt, i, nm)
               /\ (T[o].bin \/ e > Len(txt) \/ ~IsIdent(SubSeq(txt, i, e)))
      hits == {j \in 1..Len(sorted) : ok(sorted[j])}
  IN IF hits = {} THEN 0 ELSE sorted[CHOOSE j \in hits : \A q \in hits : j <= q]

\* find_op_of_comma: scanning from the right, the first operator token at relative paren depth 1
RECURSIVE FindOpOfComma(_, _, _)
FindOpOfComma(res, j, cnt) ==
  IF j < 1 THEN 0
  ELSE LET c == cnt + (CASE res[j].t = "close" -> -1 [] res[j].t = "open" -> 1 [] OTHER -> 0)
       IN IF res[j].t = "op" /\ c = 1 THEN j ELSE FindOpOfComma(res, j - 1, c)

(* State: cur = position, res = tokens, pend = pending calls.  With the single slot `pend` is either     *)
(* <<>> or <<n>> (close_additional_paren, open_paren_count = n); with the stack it may be longer.         *)
\* close_finished_calls: every pending call whose counter reached zero gets its additional ')'; with the
\* stack the parenthesis of the finished call had been counted by the enclosing call as well
RECURSIVE AfterClose(_)
AfterClose(s) ==
  IF Len(s.pend) > 0 /\ s.pend[Len(s.pend)] = 0
  THEN LET popped == [s EXCEPT !.res = Append(@, TClose), !.pend = SubSeq(@, 1, Len(@) - 1)]
       IN IF CallStack
          THEN AfterClose(IF Len(popped.pend) > 0 THEN [popped EXCEPT !.pend[Len(popped.pend)] = @ - 1] ELSE popped)
          ELSE popped
  ELSE s
\* after an operand the same check is made (pinned code: `close_additional_paren && open_paren_count == 0`)
AfterOperand(s) == AfterClose(s)
Bump(pend, d) == IF Len(pend) = 0 THEN pend ELSE [pend EXCEPT ![Len(pend)] = @ + d]

RECURSIVE TokLoop(_, _, _, _)
TokLoop(T, sorted, txt, s) ==
  IF s.cur > Len(txt) THEN [st |-> "ok", toks |-> s.res]
  ELSE LET c == txt[s.cur] IN
    IF c = SP THEN TokLoop(T, sorted, txt, [s EXCEPT !.cur = @ + 1])
    ELSE IF c = LP THEN
      \* the code counts every '(' in open_paren_count, pending call or not
      TokLoop(T, sorted, txt, [s EXCEPT !.cur = @ + 1, !.res = Append(@, TOpen), !.pend = Bump(@, 1), !.free = IF Len(s.pend) = 0 THEN @ + 1 ELSE @])
    ELSE IF c = RP THEN
      LET s1 == [s EXCEPT !.cur = @ + 1, !.res = Append(@, TClose), !.pend = Bump(@, -1), !.free = IF Len(s.pend) = 0 THEN @ - 1 ELSE @]
      IN TokLoop(T, sorted, txt, AfterClose(s1))
    ELSE IF c = COMMA THEN
      LET k == FindOpOfComma(s.res, Len(s.res), 0) IN
      IF k = 0 THEN [st |-> "err", why |-> "no-op-for-comma"]
      ELSE LET res2 == [s.res EXCEPT ![k] = TOpen] \o <<TClose, s.res[k], TOpen>>
           IN TokLoop(T, sorted, txt,
                      [s EXCEPT !.cur = @ + 1, !.res = res2,
                                !.pend = IF CallStack THEN Append(@, 1) ELSE <<1>>])
    ELSE IF c = LB THEN
      LET r == FindRB(txt, s.cur + 1)
          e == IF r = 0 THEN Len(txt) ELSE r - 1
      IN TokLoop(T, sorted, txt,
                 AfterOperand([s EXCEPT !.cur = e + 2, !.res = Append(@, TVar(SubSeq(txt, s.cur + 1, e)))]))
    ELSE LET n == LiteralLen(txt, s.cur) IN
    IF n > 0 THEN
      TokLoop(T, sorted, txt, AfterOperand([s EXCEPT !.cur = @ + n, !.res = Append(@, TNum(Sub(txt, s.cur, n)))]))
    ELSE LET o == FindOps(T, sorted, txt, s.cur) IN
    IF o # 0 THEN
      \* constants become numbers but (unlike literals) are not followed by the pending-call check
      TokLoop(T, sorted, txt, [s EXCEPT !.cur = @ + Len(T[o].name),
                                        !.res = Append(@, IF T[o].const THEN TConst(o) ELSE TOp(o))])
    ELSE IF IsLetter(c) THEN
      LET m == IdRun(txt, s.cur) IN
      TokLoop(T, sorted, txt, AfterOperand([s EXCEPT !.cur = @ + m, !.res = Append(@, TVar(Sub(txt, s.cur, m)))]))
    ELSE [st |-> "err", why |-> "unknown"]

(* The single-slot code keeps ONE counter that is also incremented/decremented while no call is pending   *)
(* (`free`); it only matters through `close_additional_paren`, which is false then.  On a comma the       *)
(* counter is reset to 1.                                                                                 *)
Tokenize(T, txt) ==
  TokLoop(T, SortDesc(T, OpIds(T)), txt, [cur |-> 1, res |-> <<>>, pend |-> <<>>, free |-> 0])

\* ---- check_parsed_token_preconditions --------------------------------------------------------------------
IsNV(tk) == tk.t \in {"num", "var", "const"}
PairErr(T, l, r) ==
  \/ (l.t = "close" /\ IsNV(r)) \/ (IsNV(l) /\ r.t = "open")                      \* rule 1
  \/ (IsNV(l) /\ r.t = "op" /\ ~T[r.v].bin)                                      \* rule 2
  \/ (l.t = "op" /\ r.t = "op" /\ ~T[l.v].un /\ ~T[r.v].un)                      \* rule 3
  \/ (l.t = "op" /\ r.t = "op" /\ ~T[l.v].bin /\ ~T[r.v].un)                     \* rule 4
  \/ (l.t = "op" /\ r.t = "close")                                               \* rule 5
  \/ (l.t = "close" /\ r.t = "op" /\ ~T[r.v].bin)                                \* rule 6
  \/ (l.t = "open" /\ r.t = "close")                                             \* rule 7
RECURSIVE ParenScan(_, _, _)
ParenScan(toks, i, d) ==
  IF i > Len(toks) THEN (IF d = 0 THEN "ok" ELSE "mismatch")
  ELSE LET d2 == d + (CASE toks[i].t = "open" -> 1 [] toks[i].t = "close" -> -1 [] OTHER -> 0)
       IN IF d2 < 0 THEN "too-many-closing" ELSE ParenScan(toks, i + 1, d2)
Precond(T, toks) ==
  IF Len(toks) = 0 THEN "empty"
  ELSE IF \E i \in 1..(Len(toks) - 1) : PairErr(T, toks[i], toks[i + 1]) THEN "pair"
  ELSE LET p == ParenScan(toks, 1, 0) IN
       IF p # "ok" THEN p
       ELSE IF toks[Len(toks)].t = "op" THEN "last-is-operator"
       ELSE "ok"

\* front end shared by all parsers: [st |-> "ok", toks] | [st |-> "err", why]
FrontEnd(T, txt) ==
  LET tk == Tokenize(T, txt) IN
  IF tk.st # "ok" THEN tk
  ELSE LET p == Precond(T, tk.toks) IN IF p # "ok" THEN [st |-> "err", why |-> p] ELSE tk
=============================================================================
