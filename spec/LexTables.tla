---------------------------- MODULE LexTables ----------------------------
(* Operator tables whose names are prefixes of each other, and the alphabets used to spell texts over   *)
(* them (property C13).                                                                                  *)
EXTENDS Tables

\* l lo log log2 log10 (unary), - (dual), + (binary)
TLog == << U(<<108>>), U(<<108, 111>>), U(<<108, 111, 103>>), U(<<108, 111, 103, 50>>),
           U(<<108, 111, 103, 49, 48>>), D(<<45>>, 50, FALSE), B(<<43>>, 0, TRUE) >>
ALog == {108, 111, 103, 50, 49, 48, 32, 40, 41, 45, 46}          \* l o g 2 1 0 ' ' ( ) - .

\* < <= << == = (binary), x variable material
TCmp == << B(<<60>>, 10, FALSE), B(<<60, 61>>, 10, FALSE), B(<<60, 60>>, 20, FALSE), B(<<61, 61>>, 5, TRUE),
           D(<<45>>, 50, FALSE) >>
ACmp == {60, 61, 120, 49, 32, 45, 40, 41}                        \* < = x 1 ' ' - ( )

\* s si sin sinh (unary), constants E e PI pi-greek, + binary, min alphabetic binary
TSin == << U(<<115>>), U(<<115, 105>>), U(<<115, 105, 110>>), U(<<115, 105, 110, 104>>),
           K(<<69>>), K(<<101>>), K(<<80, 73>>), K(<<960>>), B(<<43>>, 0, TRUE) >>
ASin == {115, 105, 110, 104, 69, 101, 80, 73, 960, 52, 32, 40, 43}   \* s i n h E e P I pi 4 ' ' ( +

\* an alphabetic BINARY operator whose name is a proper prefix of a unary operator and of a constant: d (binary), db (unary),
\* dbl (constant).  A binary name matches as a prefix without looking at the next character, the longer names only if they
\* are not continued: `dbly` is `d` followed by the variable `bly`.
TPre == << B(<<100>>, 10, FALSE), U(<<100, 98>>), K(<<100, 98, 108>>), D(<<45>>, 50, FALSE), B(<<43>>, 0, TRUE) >>
APre == {100, 98, 108, 120, 49, 32, 40, 45}                       \* d b l x 1 ' ' ( -

\* call form material: alphabetic binaries f g (and the symbolic *), unary u, comma and parentheses
TCall == << B(<<102>>, 0, FALSE), B(<<103>>, 50, TRUE), B(<<42>>, 50, TRUE), U(<<117>>), D(<<45>>, 0, FALSE) >>
ACall == {102, 103, 42, 117, 45, 49, 120, 40, 41, 44, 32}         \* f g * u - 1 x ( ) , ' '

\* braces and literals
TBrace == << D(<<45>>, 50, FALSE), D(<<43>>, 0, TRUE), U(<<115>>) >>
ABrace == {123, 125, 97, 32, 43, 45, 49, 46, 115, 40, 41, 945}     \* { } a ' ' + - 1 . s ( ) alpha

\* totality material (C06): operators of the default tables, every character class incl. 2- and 4-byte code points
TStr == << D(<<43>>, 0, TRUE), D(<<45>>, 1, FALSE), B(<<42>>, 2, TRUE), B(<<94>>, 4, FALSE), K(<<960>>) >>
AStr == {120, 49, 46, 32, 40, 41, 44, 123, 125, 43, 42, 35, 960, 128512}      \* x 1 . ' ' ( ) , { } + * # pi emoji
=============================================================================
