CONSTANT T <- T5c
CONSTANT NLeaves = 3
CONSTANT MaxUn = 1
CONSTANT WithConst = FALSE
CONSTANT Shard = 0
CONSTANT NShards = 8
CONSTANT Emit = FALSE
CONSTANT CallStack = TRUE
CONSTANT BumpGuard = TRUE
CONSTANT FoldRule = "local"
INIT Init
NEXT Next
INVARIANT AbstractOk
INVARIANT ImplOk
INVARIANT EmitCases
CHECK_DEADLOCK FALSE
