---------------------------- MODULE MC_Call ----------------------------
(* Function-call notation (C08): for every tree and every subset of its binary operators written as      *)
(* `op(l, r)`, the abstract desugaring gives back the tree, the implementation-shaped tokenizer produces   *)
(* exactly the desugared tokens, and the flat and deep pipelines evaluate to the tree.  Also generates     *)
(* the replay cases.                                                                                       *)
EXTENDS LexImpl, DeepImpl, Gen, Tables, LexTables, Json
CONSTANTS T, NLeaves, MaxUn, WithConst, Shard, NShards, Emit
VARIABLE tree
Init == tree \in ShardTrees(T, NLeaves, MaxUn, WithConst, Shard, NShards)
Next == UNCHANGED tree

BinIdx == NodeIdx(tree, 1).bin
CallSets == SUBSET BinIdx \ {{}}
\* extra parentheses around the whole text / around one call
Wraps(Cf) == {{}, {1}} \cup {{k} : k \in Cf}
TextOf(Cf, W, sp) == Text(T, RenderCall(T, tree, Cf, W), sp, FALSE)

AbstractOk ==
  \A Cf \in CallSets : \A W \in Wraps(Cf) :
    LET d == Den(T, TextOf(Cf, W, "tight")) IN d.st = "ok" /\ d.den = tree
ImplOk ==
  \A Cf \in CallSets : \A W \in Wraps(Cf) :
    LET txt == TextOf(Cf, W, "spaced")
        a == Tokens(T, txt)
        i == FrontEnd(T, txt)
    IN /\ i.st = "ok" /\ i.toks = a.toks
       /\ Same(T, FlatEval(T, i.toks, TRUE), tree)
       /\ Same(T, DeepEvalToks(T, i.toks), tree)
EmitCases ==
  Emit => \A Cf \in CallSets : \A W \in Wraps(Cf) :
     PrintT(ToJson([text |-> TextOf(Cf, W, IF W = {} THEN "tight" ELSE "spaced"), den |-> tree,
                    vars |-> SortNames(TreeVars(tree))]))
ASSUME Emit => PrintT(ToJson([table |-> T]))
=============================================================================
