---------------------------- MODULE MC_Chain ----------------------------
(* Chains `x0 o1 x1 o2 x2 ...` in which every operator of TChain occurs once: the placement decides the     *)
(* application order, so all placements = all application orders (C14).  For every placement the flat and   *)
(* deep pipeline models must produce exactly the tree the priorities dictate; the texts are replayed.       *)
EXTENDS DeepImpl, Tables, Json
CONSTANTS NOps, Emit
VARIABLE order                \* order[j] = operator (1..NOps) standing at position j
T == SubSeq(TChain, 1, NOps)
Init == order = <<>>
Used == {order[j] : j \in 1..Len(order)}
Next == \E o \in (1..NOps) \ Used : order' = Append(order, o)
Complete == Len(order) = NOps

Leaf(j) == IF j % 2 = 0 THEN TVar(<<120, 48 + j>>) ELSE TNum(<<48 + j>>)
RECURSIVE ChainToks(_)
ChainToks(j) == IF j > NOps THEN <<Leaf(j - 1)>> ELSE <<Leaf(j - 1), TOp(order[j])>> \o ChainToks(j + 1)
Toks == ChainToks(1)
\* each operator applied to what stands immediately left and right of it at that moment = the reference tree
ModelsAgree ==
  Complete => LET ref == Parse(T, Toks) IN
              /\ RefParse(T, Toks) = ref
              /\ FlatEval(T, Toks, FALSE) = ref
              /\ FlatEval(T, Toks, TRUE) = ref
              /\ DeepEvalToks(T, Toks) = ref
              /\ Eval(Flatten(DParse(T, Toks).e)) = ref
              /\ Size(ref) = 2 * NOps + 1                   \* every operand consumed exactly once
RECURSIVE TextOfToks(_, _)
TextOfToks(tk, j) == IF j > Len(tk) THEN <<>>
                     ELSE (IF j > 1 THEN <<32>> ELSE <<>>) \o (IF tk[j].t = "op" THEN T[tk[j].v].name ELSE tk[j].v) \o TextOfToks(tk, j + 1)
EmitCases ==
  (Emit /\ Complete) => PrintT(ToJson([text |-> TextOfToks(Toks, 1), den |-> Parse(T, Toks),
                                        vars |-> SortNames(VarSet(Toks))]))
ASSUME Emit => PrintT(ToJson([table |-> T]))
=============================================================================
