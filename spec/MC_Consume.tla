---------------------------- MODULE MC_Consume ----------------------------
(* Consuming evaluation (C15): all occurrence patterns of three variables and literals over up to MaxNodes   *)
(* operands.  The take-or-clone scan of eval_flatex_consuming_vars (FlatImpl.Consume) never reads a slot that *)
(* was already moved out, moves exactly the last occurrence of every variable and clones the others.         *)
(* The variable list may be a strict superset of the variables that occur ("ghosts": a derivative keeps the    *)
(* list of its antiderivative, `e + g*0` keeps g): every subset of the absent variables is added to the list.  *)
EXTENDS FlatImpl, Tables, Json
CONSTANTS MaxNodes, Emit
VARIABLE pat                 \* sequence over 0..3: 0 = literal, k = k-th variable (a, b, c)
T == T5
Init == pat = <<>>
Next == Len(pat) < MaxNodes /\ \E x \in 0..3 : pat' = Append(pat, x)

VarName(k) == <<96 + k>>      \* a b c
Present == {pat[j] : j \in 1..Len(pat)} \ {0}
Ghosts == SUBSET ((1..3) \ Present)
\* index of variable k in the sorted variable list (G = listed variables that do not occur)
VIdx(k, G) == Cardinality({q \in Present \cup G : q <= k})
Nodes(G) == [j \in 1..Len(pat) |-> IF pat[j] = 0 THEN [kind |-> "num"] ELSE [kind |-> "var", vidx |-> VIdx(pat[j], G)]]
Occ(k) == Cardinality({j \in 1..Len(pat) : pat[j] = k})
ScanOk ==
  Len(pat) > 0 =>
    \A G \in Ghosts :
      LET acc == Consume(Nodes(G)) IN
      /\ \A j \in 1..Len(pat) : acc[j] # "hole"
      /\ \A k \in Present :
           LET pos == {j \in 1..Len(pat) : pat[j] = k}
               last == CHOOSE j \in pos : \A q \in pos : q <= j
           IN acc[last] = "take" /\ \A j \in pos \ {last} : acc[j] = "clone"
\* replay cases: chain with alternating + and * (operator ids 1 and 3 of T5)
LeafTok(j) == IF pat[j] = 0 THEN TNum(<<48 + j>>) ELSE TVar(VarName(pat[j]))
RECURSIVE ChainToks(_)
ChainToks(j) == IF j = Len(pat) THEN <<LeafTok(j)>> ELSE <<LeafTok(j), TOp(IF j % 2 = 1 THEN 1 ELSE 3)>> \o ChainToks(j + 1)
RECURSIVE TextOfToks(_, _)
TextOfToks(tk, j) == IF j > Len(tk) THEN <<>>
                     ELSE (IF j > 1 THEN <<32>> ELSE <<>>) \o (IF tk[j].t = "op" THEN T[tk[j].v].name ELSE tk[j].v) \o TextOfToks(tk, j + 1)
RECURSIVE SortedPresent(_)
SortedPresent(S) == IF S = {} THEN <<>> ELSE LET m == CHOOSE x \in S : \A y \in S : x <= y IN <<m>> \o SortedPresent(S \ {m})
EmitCases ==
  (Emit /\ Len(pat) > 0) =>
     LET tk == ChainToks(1) IN
     \A G \in Ghosts :
       LET sp == SortedPresent(Present \cup G) IN
       PrintT(ToJson([text |-> TextOfToks(tk, 1), den |-> Eval(Build(T, tk)), ghost |-> [q \in 1..Len(SortedPresent(G)) |-> VarName(SortedPresent(G)[q])],
                      clones |-> [q \in 1..Len(sp) |-> IF sp[q] \in G THEN 0 ELSE Occ(sp[q]) - 1]]))
ASSUME Emit => PrintT(ToJson([table |-> T]))
=============================================================================
