CONSTANT T <- T5
CONSTANT NLeaves = 4
CONSTANT MaxUn = 0
CONSTANT WithConst = FALSE
CONSTANT Shard = 0
CONSTANT NShards = 12
CONSTANT BumpGuard = TRUE
CONSTANT DeclineEq = TRUE
INIT Init
NEXT Next
INVARIANT DeepRefines
CHECK_DEADLOCK FALSE
INVARIANT FlattenRefines
INVARIANT DeepenRefines
