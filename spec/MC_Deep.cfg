CONSTANT T <- T3
CONSTANT NLeaves = 5
CONSTANT MaxUn = 0
CONSTANT WithConst = FALSE
CONSTANT Shard = 0
CONSTANT NShards = 12
CONSTANT BumpGuard = TRUE
CONSTANT FoldRule = "local"
INIT Init
NEXT Next
INVARIANT DeepRefines
CHECK_DEADLOCK FALSE
INVARIANT FlattenRefines
INVARIANT DeepenRefines
