---------------------------- MODULE MC_Deep ----------------------------
(* Refinement of the deep pipeline and of the conversions between the two forms (C02, C03).              *)
EXTENDS DeepImpl, Gen, Tables, Grammar
CONSTANTS T, NLeaves, MaxUn, WithConst, Shard, NShards
VARIABLE tree
Init == tree \in ShardTrees(T, NLeaves, MaxUn, WithConst, Shard, NShards)
Next == UNCHANGED tree

Toks(m) == Render(T, tree, m)
DeepRefines ==
  \A m \in ParenModes :
    LET r == DParse(T, Toks(m)) IN
    /\ r.err = "none" /\ r.i = Len(Toks(m)) + 1
    /\ "panic" \notin DOMAIN r.e
    /\ Same(T, DEval(r.e), tree)
FlattenRefines ==
  \A m \in {"min", "full", "all"} :
    LET e == DParse(T, Toks(m)).e
        f == Flatten(e)
    IN /\ Same(T, Eval(f), tree)
       /\ Same(T, DEval(Deepen(T, f)), tree)
       /\ Same(T, Eval(Flatten(Deepen(T, f))), tree)
DeepenRefines ==
  \A m \in {"min", "ucall", "all"}, c \in BOOLEAN :
    LET f == ParseFlat(T, Toks(m), c)
        d == Deepen(T, f)
    IN /\ Same(T, DEval(d), tree)
       /\ Same(T, Eval(Flatten(d)), tree)
       /\ Same(T, DEval(Deepen(T, Flatten(d))), tree)
(* Printing (C12): the text of the deep form - parsed, compiled; and rebuilt from the flat form, one operator per     *)
(* level - lexes and parses back to the expression that was printed.  Folded numbers are spelled as the literal 9.   *)
Nine == <<57>>
PrintsBack(e) ==
  LET d == Den(T, Unparse(T, e, Nine, TRUE)) IN d.st = "ok" /\ Same(T, d.den, DEval(Respell(e, Nine)))
UnparseRefines ==
  /\ \A m \in {"min", "full", "ucall"} : PrintsBack(DParse(T, Toks(m)).e)
  /\ \A c \in BOOLEAN : PrintsBack(Deepen(T, ParseFlat(T, Toks("min"), c)))
\* the pinned snapshot (no blanks around alphabetic operator names) does not have the property: witness for F7
UnparseRefinesPinned ==
  \A m \in {"min"} : LET e == DParse(T, Toks(m)).e
                           d == Den(T, Unparse(T, e, Nine, FALSE)) IN d.st = "ok" /\ Same(T, d.den, DEval(Respell(e, Nine)))
=============================================================================
