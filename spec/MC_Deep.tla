---------------------------- MODULE MC_Deep ----------------------------
(* Refinement of the deep pipeline and of the conversions between the two forms (C02, C03).              *)
EXTENDS DeepImpl, Gen, Tables
CONSTANTS T, NLeaves, MaxUn, WithConst, Shard, NShards
VARIABLE tree
Init == tree \in ShardTrees(T, NLeaves, MaxUn, WithConst, Shard, NShards)
Next == UNCHANGED tree

Toks(m) == Render(T, tree, m)
DeepRefines ==
  \A m \in ParenModes :
    LET r == DParse(T, Toks(m)) IN
    /\ r.err = "none" /\ r.i = Len(Toks(m)) + 1
    /\ "panic" \notin DOMAIN r.e
    /\ Same(T, DEval(r.e), tree)
FlattenRefines ==
  \A m \in {"min", "full", "all"} :
    LET e == DParse(T, Toks(m)).e
        f == Flatten(e)
    IN /\ Same(T, Eval(f), tree)
       /\ Same(T, DEval(Deepen(T, f)), tree)
       /\ Same(T, Eval(Flatten(Deepen(T, f))), tree)
DeepenRefines ==
  \A m \in {"min", "ucall", "all"}, c \in BOOLEAN :
    LET f == ParseFlat(T, Toks(m), c)
        d == Deepen(T, f)
    IN /\ Same(T, DEval(d), tree)
       /\ Same(T, Eval(Flatten(d)), tree)
       /\ Same(T, DEval(Deepen(T, Flatten(d))), tree)
=============================================================================
