---------------------------- MODULE MC_Diff ----------------------------
(* The rule table and the inner/outer structure of partial.rs (PartialImpl.D) produce the mathematical        *)
(* derivative (C05): for all small expression trees over x = 0, y = 1, z = 5/4 and the literals 1, 2 (the      *)
(* base points of the elementary functions) and every variable, IsPartial(D(e), e) is never "no", and an        *)
(* operator without rule (abs, floor) makes D fail exactly when it is applied to something.                     *)
(* Second derivatives (D(D(e))) are checked as well.  Conclusive cases are counted to exclude vacuity.          *)
EXTENDS PartialImpl, DiffTables, TLC
CONSTANTS MaxUn, Stats, SecondOrder
VARIABLE c
T == TDiff
X == <<120>>  Y == <<121>>  Z == <<122>>
Names == <<X, Y, Z>>
PointOf == <<0, 1, Q(5, 4)>>
EnvDir(k) == [names |-> Names, jets |-> [j \in 1..3 |-> IF j = k THEN JLin(PointOf[j], 1) ELSE JConst(PointOf[j])]]
Leaves == {Var(X), Var(Y), Var(Z), NumI(1), NumI(2)}
BinSems == {"add", "sub", "mul", "div", "pow"}
UnOpsAll == {o \in 1..Len(T) : T[o].un}
RECURSIVE UChain(_, _)
UChain(t, u) == IF u = 0 THEN {t} ELSE UNION {UChain(Un(o, t), u - 1) : o \in UnOpsAll}
LeafU(u) == UNION {UChain(l, u) : l \in Leaves}
\* seeds: root operator (0 = no binary operator) x unary operators on top x the complete left subtree, so that the
\* enumeration is spread over many initial states (TLC's workers share them); Next adds the right subtree
Init == c \in UNION { {[root |-> 0, top |-> u, e |-> e] : e \in LeafU(u)} : u \in 0..MaxUn }
           \cup UNION { {[root |-> OpBySem(T, x[1]), top |-> x[2], ul |-> x[3], l |-> l] : l \in LeafU(x[3])}
                         : x \in {y \in BinSems \X (0..MaxUn) \X (0..MaxUn) : y[2] + y[3] <= MaxUn} }
Next ==
  /\ "e" \notin DOMAIN c
  /\ \E ur \in 0..(MaxUn - c.top - c.ul) : \E r \in LeafU(ur) : \E e \in UChain(Bin(c.root, c.l, r), c.top) : c' = c @@ [e |-> e]

RECURSIVE HasRuleless(_)
HasRuleless(t) == CASE t.k = "un" -> T[t.o].usem \in {"abs", "floor"} \/ HasRuleless(t.a)
                    [] t.k = "bin" -> HasRuleless(t.l) \/ HasRuleless(t.r) [] OTHER -> FALSE
RulesOk ==
  ("e" \in DOMAIN c) =>
    \A k \in 1..3 :
      LET d == D(T, c.e, Names[k]) IN
      /\ d.err <=> HasRuleless(c.e)                       \* an operator without rule makes differentiation fail
      /\ ~d.err =>
           /\ IsPartial(T, d.t, c.e, EnvDir(k)) # "no"
           /\ (SecondOrder => LET dd == D(T, d.t, Names[k]) IN ~dd.err /\ IsPartial(T, dd.t, d.t, EnvDir(k)) # "no")
\* MissingOpMode only matters at binary operators without rule: on these trees (all binary operators have one) every mode is D
ModesAgreeOnRuledOperators ==
  ("e" \in DOMAIN c) => \A k \in 1..3 : \A mode \in {"error", "per_operand", "none"} : DM(T, c.e, Names[k], mode) = D(T, c.e, Names[k])
\* statistics against vacuity: how many trees (<= 1 unary) are conclusive, and the judge tells right from wrong
All1 == UNION {LeafU(u) : u \in 0..1}
        \cup UNION { UNION { UNION { UChain(Bin(OpBySem(T, s), l, r), 0) : l \in LeafU(ul), r \in LeafU(1 - ul) } : ul \in 0..1 } : s \in BinSems }
Res(e, k) == LET d == D(T, e, Names[k]) IN IF d.err THEN "err" ELSE IsPartial(T, d.t, e, EnvDir(k))
ASSUME Stats => PrintT(<<"STATS", "trees", Cardinality(All1), "conclusive-yes", Cardinality({e \in All1 : Res(e, 1) = "yes"}),
                         "no", Cardinality({e \in All1 : Res(e, 1) = "no"})>>)
ASSUME IsPartial(T, U1(T, "cos", Var(X)), U1(T, "sin", Var(X)), EnvDir(1)) = "yes"
ASSUME IsPartial(T, U1(T, "sin", Var(X)), U1(T, "sin", Var(X)), EnvDir(1)) = "no"          \* a wrong derivative is rejected
ASSUME IsPartial(T, U1(T, "neg", U1(T, "cos", Var(X))), U1(T, "sin", Var(X)), EnvDir(1)) = "no"   \* a sign error is rejected
=============================================================================
