CONSTANT T <- T8
CONSTANT NLeaves = 2
CONSTANT MaxUn = 1
CONSTANT WithConst = TRUE
CONSTANT Shard = 0
CONSTANT NShards = 4
CONSTANT Emit = FALSE
CONSTANT CallStack = TRUE
CONSTANT BumpGuard = TRUE
CONSTANT FoldRule = "local"
INIT Init
NEXT Next
INVARIANT SpecMust
INVARIANT ModelRejects
INVARIANT EmitCases
CHECK_DEADLOCK FALSE
