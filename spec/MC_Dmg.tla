---------------------------- MODULE MC_Dmg ----------------------------
(* Malformed expressions (C07): every single-point damage of every rendering of every tree falls into a   *)
(* class the property requires to be rejected, and the implementation-shaped front end + builders reject  *)
(* it.  Also generates the replay cases (expected outcome: error).                                         *)
EXTENDS LexImpl, DeepImpl, Gen, Grammar, Tables, Json
CONSTANTS T, NLeaves, MaxUn, WithConst, Shard, NShards, Emit
VARIABLE tree
Init == tree \in ShardTrees(T, NLeaves, MaxUn, WithConst, Shard, NShards)
Next == UNCHANGED tree

FirstBin == LET S == NodeIdx(tree, 1).bin IN IF S = {} THEN {} ELSE {CHOOSE k \in S : \A q \in S : k <= q}
Bases == {Render(T, tree, "min"), Render(T, tree, "full")}
         \cup (IF FirstBin = {} THEN {} ELSE {RenderCall(T, tree, FirstBin, {})})
ExtraNum == TNum(<<57>>)                \* 9
ExtraVar == TVar(<<122>>)               \* z
DamagedToks(b) ==
  [paren_deleted  |-> DmgDeleteParen(b),
   paren_inserted |-> DmgInsertParen(b),
   bin_appended   |-> DmgAppendBin(T, b),
   extra_operand  |-> DmgExtraOperand(b, ExtraNum) \cup DmgExtraOperand(b, ExtraVar)]
Kinds == {"paren_deleted", "paren_inserted", "bin_appended", "extra_operand"}
TextOf(d) == Text(T, d, "spaced", FALSE)
\* an illegal character (#) at every position of the bare spaced text
IllegalTexts(b) == LET t == TextOf(b) IN {SubSeq(t, 1, p - 1) \o <<35>> \o SubSeq(t, p, Len(t)) : p \in 1..(Len(t) + 1)}
BlankTexts == {<<>>, <<SP>>, <<SP, SP>>}

ModelRejectsText(txt) ==
  LET i == FrontEnd(T, txt) IN
  i.st = "err" \/ (Build(T, i.toks).err # "none" /\ DParse(T, i.toks).err # "none")
\* the damage classes lie inside the must-reject set of the property
SpecMust ==
  \A b \in Bases :
    /\ \A k \in Kinds : \A d \in DamagedToks(b)[k] : Classify(T, TextOf(d)) = "must"
    /\ \A x \in IllegalTexts(b) : Classify(T, x) = "must"
ModelRejects ==
  \A b \in Bases :
    /\ \A k \in Kinds : \A d \in DamagedToks(b)[k] : ModelRejectsText(TextOf(d))
    /\ \A x \in IllegalTexts(b) : ModelRejectsText(x)
ASSUME BlankRejected == \A x \in BlankTexts : Classify(T, x) = "must" /\ ModelRejectsText(x)
EmitCases ==
  Emit => \A b \in Bases :
     /\ \A k \in Kinds : \A d \in DamagedToks(b)[k] : PrintT(ToJson([text |-> TextOf(d), expect |-> "err", dmg |-> k]))
     /\ \A x \in IllegalTexts(b) : PrintT(ToJson([text |-> x, expect |-> "err", dmg |-> "illegal_char"]))
ASSUME Emit => PrintT(ToJson([table |-> T]))
ASSUME Emit => \A x \in BlankTexts : PrintT(ToJson([text |-> x, expect |-> "err", dmg |-> "blank"]))
=============================================================================
