---------------------------- MODULE MC_Exmex ----------------------------
(* Bounded-exhaustive exploration of the session machine (Exmex.tla): every history of up to MaxSteps calls     *)
(* over a pool of seed expressions with overlapping / disjoint variable sets and the constants 0 and 1.         *)
(*   - the pool is append-only and existing entries never change (evaluation and every other call leave the     *)
(*     expressions they are applied to untouched)                                                               *)
(*   - every call has exactly one of the outcomes entry / error / unconstrained (totality, determinism)         *)
(*   - derived entries list the sorted union of the variables involved                                          *)
(* Each complete history is printed as a script and replayed on the real library (direction A).                 *)
EXTENDS Exmex, DiffTables, Json
CONSTANTS MaxSteps, Emit, Alphabet
VARIABLES pool, hist
T == TDiff
SeedTexts == << <<120>>, <<121, 42, 120>>, <<48>>, <<49>>, <<120, 45, 122>>, <<50>> >>      \* x  y*x  0  1  x-z  2
SeedForm(q) == IF q % 2 = 1 THEN "flat" ELSE "deep"
SeedEntryOf(q) == LET d == Den(T, SeedTexts[q]) IN Entry(SeedForm(q), Vars(d.toks), d.den)
Init == pool = [q \in 1..Len(SeedTexts) |-> SeedEntryOf(q)] /\ hist = <<>>

NamesUn == {<<115, 105, 110>>, <<45>>, <<97, 98, 115>>, <<110, 111>>}                     \* sin - abs no(such)
NamesBin == {<<43>>, <<42>>, <<47>>, <<94>>, <<45>>, <<110, 111>>}                        \* + * / ^ - no(such)
StdB == {"add", "sub", "mul", "div", "pow"}
StdU == {"neg", "sin", "exp", "ln"}
Maps == { <<>>, << <<<<120>>, 2>> >>, << <<<<120>>, 5>>, <<<<122>>, 1>> >>, << <<<<120>>, 3>> >>, << <<<<121>>, 1>>, <<<<120>>, 2>> >> }
Idx == 1..Len(pool)
\* later steps must involve the newest entry (otherwise the history is a permutation of shorter ones)
Involves(st) == Len(hist) = 0 \/ st.i = Len(pool) \/ ("j" \in DOMAIN st /\ st.j = Len(pool))
Steps ==
  (IF "op" \in Alphabet THEN {[act |-> "op_un", i |-> i, name |-> n] : i \in Idx, n \in NamesUn}
                            \cup {[act |-> "op_bin", i |-> i, j |-> j, name |-> n] : i \in Idx, j \in Idx, n \in NamesBin} ELSE {})
  \cup (IF "std" \in Alphabet THEN {[act |-> "std", op |-> o, i |-> i, j |-> j] : o \in StdB, i \in Idx, j \in Idx}
                            \cup {[act |-> "std", op |-> o, i |-> i] : o \in StdU, i \in Idx} ELSE {})
  \cup (IF "conv" \in Alphabet THEN {[act |-> a, i |-> i] : a \in {"to_deep", "to_flat"}, i \in Idx} ELSE {})
  \cup (IF "subs" \in Alphabet THEN {[act |-> "subs", i |-> i, map |-> m] : i \in Idx, m \in Maps} ELSE {})
  \cup (IF "print" \in Alphabet THEN {[act |-> a, i |-> i] : a \in {"reparse", "serde"}, i \in Idx} ELSE {})
  \cup (IF "diff" \in Alphabet THEN {[act |-> "partial", i |-> i, k |-> k] : i \in Idx, k \in 0..2}
                            \cup {[act |-> "partial_nth", i |-> i, k |-> k, n |-> n] : i \in Idx, k \in 0..2, n \in 0..2}
                            \cup {[act |-> "partial_iter", i |-> i, ks |-> ks] : i \in Idx, ks \in {<<>>, <<0, 1>>, <<1, 0>>, <<0, 3>>, <<1, 1, 0>>}} ELSE {})
Apply(st) ==
  LET eff == Effect(T, pool, st) IN
  /\ pool' = Append(pool, IF eff.r \in {"entry", "deriv"} THEN eff.e ELSE Failed)
  /\ hist' = Append(hist, st)
Next == Len(hist) < MaxSteps /\ \E st \in Steps : Involves(st) /\ Apply(st)

AppendOnly == [][Len(pool') = Len(pool) + 1 /\ \A q \in 1..Len(pool) : pool'[q] = pool[q]]_<<pool, hist>>
Total == \A st \in Steps : Effect(T, pool, st).r \in {"entry", "deriv", "err", "free"}
VarsSorted == \A q \in 1..Len(pool) : pool[q].ok => IsSortedNames(pool[q].vars)
\* variables of a derived entry: contained in the union of everything it was built from
VarsFromSeeds == \A q \in 1..Len(pool) : pool[q].ok => Range(pool[q].vars) \subseteq {<<120>>, <<121>>, <<122>>}
EmitCases ==
  (Emit /\ Len(hist) > 0) =>
     PrintT(ToJson([seeds |-> [q \in 1..Len(SeedTexts) |-> [text |-> SeedTexts[q], form |-> SeedForm(q)]], steps |-> hist,
                    point |-> << <<<<120>>, 1, 2>>, <<<<121>>, 3, 1>>, <<<<122>>, -2, 1>> >>]))
ASSUME Emit => PrintT(ToJson([table |-> T]))
=============================================================================
