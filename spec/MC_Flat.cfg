CONSTANT T <- T8
CONSTANT NLeaves = 3
CONSTANT MaxUn = 1
CONSTANT WithConst = TRUE
CONSTANT Shard = 3
CONSTANT NShards = 16
CONSTANT BumpGuard = TRUE
INIT Init
NEXT Next
INVARIANT Refines
INVARIANT RefinesOne
INVARIANT Shrinks
CHECK_DEADLOCK FALSE
CONSTANT Emit = FALSE
CONSTANT FoldRule = "local"
