---------------------------- MODULE MC_Flat ----------------------------
(* Refinement: the implementation-shaped model of the flat pipeline computes, for every tree and every  *)
(* rendering inside the bound, a value that equals the reference meaning modulo AC of flagged operators *)
(* - uncompiled, compiled and compiled again (C01, C02).                                                 *)
EXTENDS DeepImpl, Gen, Tables, Json
CONSTANTS T, NLeaves, MaxUn, WithConst, Shard, NShards, Emit
VARIABLE tree
Init == tree \in ShardTrees(T, NLeaves, MaxUn, WithConst, Shard, NShards)
Next == UNCHANGED tree

Toks(m) == Render(T, tree, m)
Refines ==
  \A m \in ParenModes :
    LET f == Build(T, Toks(m)) IN
    /\ f.err = "none"
    /\ Same(T, Eval(f), tree)
    /\ LET c == Compile(f) IN
       /\ c.err = "none"
       /\ Same(T, Eval(c), tree)
       /\ LET cc == Compile(c) IN cc.err = "none" /\ Same(T, Eval(cc), tree)
RefinesOne ==
  \A k \in 1..Size(tree) :
    LET f == Build(T, RenderOne(T, tree, k)) IN
    f.err = "none" /\ Same(T, Eval(f), tree) /\ Same(T, Eval(Compile(f)), tree)
\* folding makes progress exactly on literal pairs and never grows the expression
Shrinks ==
  LET f == Build(T, Toks("min")) c == Compile(f) IN Len(c.nodes) <= Len(f.nodes) /\ Len(c.ops) + 1 = Len(c.nodes)
\* var_indices_ordered reports every variable occurrence exactly once, before and after folding
VioOk == \A m \in {"min", "full"} : LET f == Build(T, Toks(m)) IN VioSound(f) /\ VioSound(Compile(f))
\* ---- model conformance: the structures the models predict, to be compared with the verif_dump hook of the real code ----
FlatShape(f) == [nodes |-> [j \in 1..Len(f.nodes) |-> [k |-> f.nodes[j].kind, un |-> f.nodes[j].un]],
                 ops   |-> [j \in 1..Len(f.ops) |-> [idx |-> f.ops[j].o, prio |-> f.ops[j].prio, un |-> f.ops[j].un]],
                 prio  |-> f.prio]
RECURSIVE DeepShape(_)
DeepShape(e) == [nodes |-> [j \in 1..Len(e.nodes) |-> IF e.nodes[j].k = "expr" THEN [k |-> "expr", e |-> DeepShape(e.nodes[j].e)]
                                                        ELSE [k |-> e.nodes[j].k]],
                 ops |-> [j \in 1..Len(e.ops) |-> e.ops[j].o], un |-> e.un]
EmitModel ==
  Emit => \A m \in {"min", "full"} :
     LET tk == Toks(m) f == Build(T, tk) IN
     PrintT(ToJson([text |-> Text(T, tk, "spaced", FALSE), flat_wo |-> FlatShape(f), flat |-> FlatShape(Compile(f)),
                    deep |-> DeepShape(DParse(T, tk).e),
                    up |-> Unparse(T, DParse(T, tk).e, <<64>>, TRUE),
                    \* step level: the decisions of compile() and the steps of eval_binary, as the hooks report them
                    vio_wo |-> VarIndicesOrdered(f), vio |-> VarIndicesOrdered(Compile(f)),
                    comp |-> CompileSteps(f), steps_wo |-> EvalSteps(f), steps |-> EvalSteps(Compile(f)),
                    dcomp |-> DParse(T, tk).tr]))                 \* folds of all compile() calls of the deep parse      \* `@`: any number node that is not a plain literal
ASSUME Emit => PrintT(ToJson([table |-> T]))
=============================================================================
