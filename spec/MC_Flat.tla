---------------------------- MODULE MC_Flat ----------------------------
(* Refinement: the implementation-shaped model of the flat pipeline computes, for every tree and every  *)
(* rendering inside the bound, a value that equals the reference meaning modulo AC of flagged operators *)
(* - uncompiled, compiled and compiled again (C01, C02).                                                 *)
EXTENDS FlatImpl, Gen, Tables
CONSTANTS T, NLeaves, MaxUn, WithConst, Shard, NShards
VARIABLE tree
Init == tree \in ShardTrees(T, NLeaves, MaxUn, WithConst, Shard, NShards)
Next == UNCHANGED tree

Toks(m) == Render(T, tree, m)
Refines ==
  \A m \in ParenModes :
    LET f == Build(T, Toks(m)) IN
    /\ f.err = "none"
    /\ Same(T, Eval(f), tree)
    /\ LET c == Compile(f) IN
       /\ c.err = "none"
       /\ Same(T, Eval(c), tree)
       /\ LET cc == Compile(c) IN cc.err = "none" /\ Same(T, Eval(cc), tree)
RefinesOne ==
  \A k \in 1..Size(tree) :
    LET f == Build(T, RenderOne(T, tree, k)) IN
    f.err = "none" /\ Same(T, Eval(f), tree) /\ Same(T, Eval(Compile(f)), tree)
\* folding makes progress exactly on literal pairs and never grows the expression
Shrinks ==
  LET f == Build(T, Toks("min")) c == Compile(f) IN Len(c.nodes) <= Len(f.nodes) /\ Len(c.ops) + 1 = Len(c.nodes)
=============================================================================
