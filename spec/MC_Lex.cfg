CONSTANT T <- TLog
CONSTANT Alphabet <- ALog
CONSTANT MaxLen = 4
CONSTANT CallStack = FALSE
CONSTANT BumpGuard = TRUE
INIT Init
NEXT Next
INVARIANT LexAgree
INVARIANT CallAgree
INVARIANT NoPanic
CHECK_DEADLOCK FALSE
CONSTANT Emit = FALSE
