---------------------------- MODULE MC_Lex ----------------------------
(* All texts up to MaxLen over an alphabet, grown one character per step (so TLC's workers share the     *)
(* enumeration): the implementation-shaped tokenizer agrees with the abstract lexical rules (C13), and   *)
(* the front end never reaches a failure state (C06).                                                     *)
EXTENDS LexImpl, FlatImpl, Grammar, LexTables, Json
CONSTANTS T, Alphabet, MaxLen, Emit
VARIABLE txt
Init == txt = <<>>
Next == Len(txt) < MaxLen /\ \E c \in Alphabet : txt' = Append(txt, c)

HasCommaChar == \E j \in 1..Len(txt) : txt[j] = COMMA
(* pure lexing (no call form involved): same tokens, same errors *)
LexAgree ==
  ~HasCommaChar =>
    LET a == Lex(T, txt) i == Tokenize(T, txt) IN
    CASE a.st = "unspec" -> TRUE
      [] a.st = "ok"     -> i.st = "ok" /\ i.toks = a.toks
      [] a.st = "err"    -> i.st = "err"
(* with call form: well-formed texts give exactly the desugared tokens; everything the abstract grammar   *)
(* rejects is rejected by tokenizer, preconditions or builder                                             *)
Rejected(i) ==
  \/ i.st = "err"
  \/ Precond(T, i.toks) # "ok"
  \/ Build(T, i.toks).err # "none"
CallAgree ==
  LET a == Tokens(T, txt) i == Tokenize(T, txt) IN
  CASE a.st = "unspec" -> TRUE
    [] a.st = "ok" /\ WellFormed(T, a.toks) -> i.st = "ok" /\ i.toks = a.toks /\ ~Rejected(i)
    [] OTHER -> Classify(T, txt) = "must" => Rejected(i)
(* no failure state: tokenizer total, builder never indexes out of range after the precondition check *)
NoPanic ==
  LET i == Tokenize(T, txt) IN
  (i.st = "ok" /\ Precond(T, i.toks) = "ok") =>
     LET b == Build(T, i.toks) IN b.err \notin PanicErrs
\* replay cases for the real tokenizer: the abstract expectation where the rules fix one
Expect ==
  IF HasCommaChar
  THEN LET a == Tokens(T, txt) IN
       IF a.st = "ok" /\ WellFormed(T, a.toks) THEN [text |-> txt, st |-> "ok", toks |-> a.toks] ELSE [text |-> txt, st |-> "any"]
  ELSE LET a == Lex(T, txt) IN
       IF a.st = "ok" THEN [text |-> txt, st |-> "ok", toks |-> a.toks] ELSE [text |-> txt, st |-> IF a.st = "err" THEN "err" ELSE "any"]
EmitCases == (Emit /\ Len(txt) > 0) => PrintT(ToJson(Expect))
ASSUME Emit => PrintT(ToJson([table |-> T]))
=============================================================================
