CONSTANT T <- T8
CONSTANT NLeaves = 2
CONSTANT MaxUn = 1
CONSTANT WithConst = TRUE
CONSTANT Shard = 0
CONSTANT NShards = 1
CONSTANT Emit = TRUE
INIT Init
NEXT Next
INVARIANT TokLemma
INVARIANT OneLemma
INVARIANT TextLemma
INVARIANT EmitCases
CHECK_DEADLOCK FALSE
