---------------------------- MODULE MC_Ref ----------------------------
(* Bounded-exhaustive check of the reference semantics against itself (two formulations of the       *)
(* documented rules, token level and character level) and generator of replay cases (direction A).   *)
EXTENDS Gen, Tables, Json
CONSTANTS T, NLeaves, MaxUn, WithConst, Shard, NShards, Emit
VARIABLE tree

Init == tree \in ShardTrees(T, NLeaves, MaxUn, WithConst, Shard, NShards)
Next == UNCHANGED tree

Spacings == {"tight", "spaced", "wide"}

\* the two formulations of the documented rules agree and invert every rendering
TokLemma ==
  \A m \in ParenModes :
    LET tk == Render(T, tree, m)
    IN WellFormed(T, tk) /\ RefParse(T, tk) = tree /\ Parse(T, tk) = tree
OneLemma ==
  \A k \in 1..Size(tree) :
    LET tk == RenderOne(T, tree, k) IN WellFormed(T, tk) /\ Parse(T, tk) = tree
\* character level: lexing any spelling of any rendering gives back the tree
TextLemma ==
  \A m \in ParenModes, sp \in Spacings, br \in BOOLEAN :
    Den(T, Text(T, Render(T, tree, m), sp, br)) = [st |-> "ok", den |-> tree]
NormLemma == Norm(T, tree) = Norm(T, tree)

CaseOf(tk, sp, br) ==
  [text |-> Text(T, tk, sp, br), den |-> tree, vars |-> SortNames(TreeVars(tree))]
EmitCases ==
  Emit =>
    /\ \A m \in {"min", "full"} : PrintT(ToJson(CaseOf(Render(T, tree, m), "tight", FALSE)))
    /\ \A m \in {"ucall", "leaf"} : PrintT(ToJson(CaseOf(Render(T, tree, m), "spaced", TRUE)))
    /\ PrintT(ToJson(CaseOf(Render(T, tree, "all"), "wide", FALSE)))
ASSUME Emit => PrintT(ToJson([table |-> T]))
=============================================================================
