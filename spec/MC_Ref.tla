---------------------------- MODULE MC_Ref ----------------------------
(* Bounded-exhaustive check of the reference semantics against itself (two formulations of the       *)
(* documented rules, token level and character level) and generator of replay cases (direction A).   *)
EXTENDS Gen, Tables, Json
CONSTANTS T, NLeaves, MaxUn, WithConst, Shard, NShards, Emit, FullText
VARIABLE tree

Init == tree \in ShardTrees(T, NLeaves, MaxUn, WithConst, Shard, NShards)
Next == UNCHANGED tree

Spacings == {"tight", "spaced", "wide"}

\* the two formulations of the documented rules agree and invert every rendering
TokLemma ==
  \A m \in ParenModes :
    LET tk == Render(T, tree, m)
    IN WellFormed(T, tk) /\ RefParse(T, tk) = tree /\ Parse(T, tk) = tree
OneLemma ==
  \A k \in 1..Size(tree) :
    LET tk == RenderOne(T, tree, k) IN WellFormed(T, tk) /\ Parse(T, tk) = tree
\* character level: lexing any spelling of any rendering gives back the tree
EmitCombos == {<<"min", "tight", FALSE>>, <<"full", "tight", FALSE>>, <<"ucall", "spaced", TRUE>>,
               <<"leaf", "spaced", TRUE>>, <<"all", "wide", FALSE>>}
AllCombos == ParenModes \X Spacings \X BOOLEAN
TextOk(c) == LET d == Den(T, Text(T, Render(T, tree, c[1]), c[2], c[3])) IN d.st = "ok" /\ d.den = tree
TextLemma == \A c \in (IF FullText THEN AllCombos ELSE EmitCombos) : TextOk(c)
NormLemma == Norm(T, tree) = Norm(T, tree)

CaseOf(tk, sp, br) ==
  [text |-> Text(T, tk, sp, br), den |-> tree, vars |-> SortNames(TreeVars(tree))]
EmitCases ==
  Emit => \A c \in EmitCombos : PrintT(ToJson(CaseOf(Render(T, tree, c[1]), c[2], c[3])))
ASSUME Emit => PrintT(ToJson([table |-> T]))
=============================================================================
