---------------------------- MODULE MC_Sched ----------------------------
(* All application orders of a chain of NOps binary operators, grown one operator per step.  For every     *)
(* complete order the abstract meaning (nearest live operand left/right at that moment) gives the expected  *)
(* answers of the tracker at every step, printed as replay cases for the real `usize` / `[usize]` trackers  *)
(* at several offsets (around the word boundaries).                                                         *)
EXTENDS Integers, Sequences, FiniteSets, TLC, Json
CONSTANTS NOps, Bases, Emit
VARIABLE order                \* sequence of distinct operator indices 0..NOps-1
Init == order = <<>>
Used == {order[j] : j \in 1..Len(order)}
Next == \E o \in (0..(NOps - 1)) \ Used : order' = Append(order, o)

\* operand j is dead iff operator j-1 has been applied
RECURSIVE Steps(_, _, _)
Steps(ord, p, applied) ==
  IF p > Len(ord) THEN <<>>
  ELSE LET idx == ord[p]
           dead(j) == (j - 1) \in applied
           n1 == CHOOSE j \in 0..idx : ~dead(j) /\ \A k \in (j + 1)..idx : dead(k)
           n2 == CHOOSE j \in (idx + 1)..NOps : ~dead(j) /\ \A k \in (idx + 1)..(j - 1) : dead(k)
       IN <<[idx |-> idx, prev |-> idx - n1, next |-> n2 - idx]>> \o Steps(ord, p + 1, applied \cup {idx})
Complete == Len(order) = NOps
\* consumed exactly once: after a complete order every operand except the first has been consumed
ConsumedOnce ==
  Complete => LET st == Steps(order, 1, {}) IN
              {st[p].idx + st[p].next : p \in 1..NOps} = 1..NOps
EmitCases ==
  (Emit /\ Complete) =>
     \A b \in Bases : PrintT(ToJson([n |-> NOps + 1, base |-> b, order |-> order, steps |-> Steps(order, 1, {})]))
=============================================================================
