---------------------------- MODULE MC_Stmts ----------------------------
(* All sessions of up to MaxLines lines over a small alphabet of lines (assignments of values and of expressions,     *)
(* re-assignment, evaluation of bound / unbound / transitively bound names, unsupported and malformed lines).           *)
(*   - names in the store are pairwise different; a line changes at most one entry and never removes one               *)
(*   - every line has exactly one effect                                                                               *)
(* Every complete session is printed and replayed on the real library (direction A).                                   *)
EXTENDS Stmts, DiffTables, Json
CONSTANTS MaxLines, Emit
VARIABLES store, hist
T == TDiff
Lines == << <<120, 32, 61, 32, 50>>,      \* `x = 2`
           <<121, 32, 61, 32, 120, 43, 49>>,      \* `y = x+1`
           <<120, 32, 61, 32, 121, 42, 50>>,      \* `x = y*2`
           <<121>>,      \* `y`
           <<120>>,      \* `x`
           <<120, 43, 121>>,      \* `x+y`
           <<122>>,      \* `z`
           <<50, 42, 51>>,      \* `2*3`
           <<102, 40, 97, 41, 32, 61, 32, 49>>,      \* `f(a) = 1`
           <<120, 32, 61, 32>>,      \* `x = `
           <<32, 61, 32, 51>>,      \* ` = 3`
           <<121, 32, 61, 32, 51, 32, 61, 32, 52>>,      \* `y = 3 = 4`
           <<120, 61, 50>>,      \* `x=2`
           <<32, 32, 121, 32, 32, 61, 32, 32, 120, 32, 42, 32, 120, 32, 32>>,      \* `  y  =  x * x  `
           <<120, 32, 61, 32, 40>>,      \* `x = (`
           <<97, 32, 98, 32, 61, 32, 49>>,      \* `a b = 1`
           <<120, 32, 61, 32, 115, 105, 110, 40, 48, 46, 53, 41>>,      \* `x = sin(0.5)`
           <<115, 105, 110, 40, 120, 41>>,      \* `sin(x)`
           <<121, 32, 61, 32, 121>>,      \* `y = y`
           <<120, 43>>,      \* `x+`
           <<120, 61>>,      \* `x=`
           <<61>>,      \* `=`
           <<120, 32, 61, 61>> >>      \* `x ==`
Init == store = <<>> /\ hist = <<>>
Next == Len(hist) < MaxLines /\ \E q \in 1..Len(Lines) :
          /\ store' = LineEffect(T, store, Lines[q]).store
          /\ hist' = Append(hist, Lines[q])
NamesDistinct == \A a, b \in 1..Len(store) : store[a].name = store[b].name => a = b
Total == \A q \in 1..Len(Lines) : LineEffect(T, store, Lines[q]).o \in {"err", "assigned", "value", "evalerr", "free"}
\* a line changes at most one entry and never removes one
Monotone == [][/\ Len(store') \in {Len(store), Len(store) + 1}
               /\ Cardinality({j \in 1..Len(store) : store'[j] # store[j]}) <= 1
               /\ \A j \in 1..Len(store) : store'[j].name = store[j].name]_<<store, hist>>
EmitCases == (Emit /\ Len(hist) > 0) => PrintT(ToJson([lines |-> hist]))
ASSUME Emit => PrintT(ToJson([table |-> T]))
=============================================================================
