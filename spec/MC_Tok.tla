---------------------------- MODULE MC_Tok ----------------------------
(* ALL token sequences up to MaxLen over the token alphabet {number, variable, binary *, unary sn, sign -,    *)
(* constant K, '(' , ')'} (C06, C07, C01): grown one token per step.                                          *)
(*   - the front end + builders accept a sequence iff it is well-formed (nothing malformed is ever evaluated,  *)
(*     nothing well-formed is rejected), flat and deep alike                                                   *)
(*   - no failure state (index out of range, unwrap, assert) is reachable in tokens -> preconditions -> flat   *)
(*     builder -> compile -> deepen -> flatten, nor in the deep builder                                        *)
(*   - every accepted sequence evaluates to its reference meaning in all forms                                 *)
EXTENDS LexImpl, DeepImpl, Grammar, Tables, Json
CONSTANTS MaxLen, Emit
VARIABLE toks
T == << B(<<42>>, 50, TRUE), U(<<115, 110>>), D(<<45>>, 0, FALSE), K(<<75>>) >>
Alphabet == {TNum(<<49>>), TVar(<<120>>), TOp(1), TOp(2), TOp(3), TConst(4), TOpen, TClose}
Init == toks = <<>>
Next == Len(toks) < MaxLen /\ \E t \in Alphabet : toks' = Append(toks, t)

Pre == Precond(T, toks)
FlatAccepts == Pre = "ok" /\ Build(T, toks).err = "none"
DeepAccepts == Pre = "ok" /\ DParse(T, toks).err = "none" /\ DParse(T, toks).i = Len(toks) + 1
MustReject == Len(toks) = 0 \/ Unbalanced(toks) \/ EndsInOp(toks) \/ CountMismatch(T, toks)      \* the classes of C07
AcceptIffWellFormed ==
  /\ WellFormed(T, toks) => (FlatAccepts /\ DeepAccepts)
  /\ MustReject => (~FlatAccepts /\ ~DeepAccepts)
\* sloppy sequences outside both sets (e.g. `* 1 2`): if both forms accept they agree (C03)
SloppyAgree ==
  (FlatAccepts /\ DeepAccepts) => Same(T, Eval(Build(T, toks)), DEval(DParse(T, toks).e))
NoFailureState ==
  Pre = "ok" =>
    LET b == Build(T, toks) d == DParse(T, toks) IN
    /\ b.err \notin PanicErrs /\ d.err \notin PanicErrs
    /\ (b.err = "none" => LET c == Compile(b) IN c.err = "none" /\ "panic" \notin DOMAIN Deepen(T, c) /\ "panic" \notin DOMAIN Deepen(T, b))
    /\ (d.err = "none" => "panic" \notin DOMAIN d.e)
Meaning ==
  WellFormed(T, toks) =>
    LET ref == Parse(T, toks) b == Build(T, toks) d == DParse(T, toks).e IN
    /\ RefParse(T, toks) = ref
    /\ Same(T, Eval(b), ref) /\ Same(T, Eval(Compile(b)), ref)
    /\ Same(T, DEval(d), ref) /\ Same(T, Eval(Flatten(d)), ref) /\ Same(T, DEval(Deepen(T, b)), ref)
EmitCases == (Emit /\ Len(toks) > 0) => PrintT(ToJson([text |-> Text(T, toks, "spaced", FALSE)]))
ASSUME Emit => PrintT(ToJson([table |-> T]))
=============================================================================
