---------------------------- MODULE MC_Val ----------------------------
(* (1) ArithLemma: the overflow-free formulations of checked integer arithmetic in ValSem agree with plain   *)
(*     mathematics on ALL pairs of a small width (exhaustive at W = 6..8), so they can be trusted at 16/32.  *)
(* (2) Enumeration of the full product operators x catalogue x widths with the required result of each case   *)
(*     (replayed against the real operator functions and through parse_val).                                  *)
EXTENDS ValSem, TLC, Json
CONSTANTS Widths, LemmaW, Emit
VARIABLE c

BinOps == <<"^", "+", "-", "cross", "dot", "*", "/", "atan2", "%", "|", "&", "XOR", ">>", "<<", "&&", "||", "==", ">=", ">",
            "<=", "<", "!=", "if", "else", "min", "max", ".">>
UnOps == <<"+", "-", "signum", "abs", "sin", "cos", "tan", "asin", "acos", "atan", "sinh", "cosh", "tanh", "asinh", "acosh",
           "atanh", "floor", "ceil", "trunc", "fract", "exp", "sqrt", "cbrt", "round", "ln", "log10", "log2", "log",
           "swap_bytes", "to_le", "to_be", "fact", "to_int", "to_float", "length">>

F(q) == FExact(q) @@ [name |-> ""]
FN(cl, s, nm) == FClass(cl, s) @@ [name |-> nm]
Floats == {FN("nan", 0, "nan"), FN("pinf", 1, "pinf"), FN("ninf", -1, "ninf"), F(0), [F(0) EXCEPT !.s = -1, !.name = "nzero"],
           F(2), F(4), F(-4), F(8), F(10), F(1), F(-15), F(28), FN("fin", 1, "huge"), FN("fin", -1, "nhuge"), FN("fin", 1, "third"),
           \* just outside / on the edge of the integer range of the width: MAX+1, MAX+1.5, MIN-1 (no integer), MIN-0.5 (truncates to MIN)
           FN("fin", 1, "maxp1"), FN("fin", 1, "maxp1h"), FN("fin", -1, "minm1"), FN("fin", -1, "minmh")}
Arrays == {[k |-> "array", v |-> <<>>], [k |-> "array", v |-> <<F(4)>>], [k |-> "array", v |-> <<F(4), F(8), F(12)>>],
           [k |-> "array", v |-> <<F(0), F(4), F(0)>>],
           [k |-> "array", v |-> <<F(2), F(-4), F(8), F(0), F(16)>>], [k |-> "array", v |-> <<FN("nan", 0, "nan"), F(4), F(0)>>]}
Ints(W) == {IntV(n) : n \in {MinOf(W), MinOf(W) + 1, -2, -1, 0, 1, 2, 3, 7, W - 1, W, MaxOf(W) - 1, MaxOf(W)}}
\* width 64 cannot be written with TLC's integers: named values the recorder instantiates (2^40, -2^40, i64::MIN, i64::MAX)
Wide == {[k |-> "int", v |-> 0, name |-> nm] : nm \in {"big", "nbig", "min64", "max64"}}
Catalogue(W) == IF W = 64 THEN {IntV(n) : n \in {-2, -1, 0, 1, 2, 3, 63, 64}} \cup Wide \cup Floats \cup {Bool(TRUE), None, Err}
                ELSE Ints(W) \cup Floats \cup Arrays \cup {Bool(TRUE), Bool(FALSE), None, Err}

Init == c \in {[w |-> w, op |-> BinOps[j], ar |-> 2] : w \in Widths, j \in 1..Len(BinOps)}
           \cup {[w |-> w, op |-> UnOps[j], ar |-> 1] : w \in Widths, j \in 1..Len(UnOps)}
           \cup (IF LemmaW = 0 THEN {} ELSE {[lemma |-> TRUE, a |-> a] : a \in MinOf(LemmaW)..MaxOf(LemmaW)})
Next ==
  /\ "a" \notin DOMAIN c /\ "lemma" \notin DOMAIN c
  /\ \E a \in Catalogue(c.w) :
       IF c.ar = 1 THEN c' = c @@ [a |-> a]
       ELSE \E b \in Catalogue(c.w) : c' = c @@ [a |-> a, b |-> b]

Case == "a" \in DOMAIN c /\ "lemma" \notin DOMAIN c
ReqOf == IF c.w = 64 THEN Req64(c) ELSE IF c.ar = 1 THEN Req1(c.w, c.op, c.a) ELSE Req2(c.w, c.op, c.a, c.b)
\* the requirement is a total function of the case and well formed
ReqTotal == Case => ReqOf.r \in {"val", "err", "kind", "kinds", "any"} /\ ReqOf.src \in {"C16", "C17"}
EmitCases == (Emit /\ Case) => PrintT(ToJson(c @@ [req |-> ReqOf]))

\* ---- (1) -------------------------------------------------------------------------------------------------------------
InR(W, n) == n >= MinOf(W) /\ n <= MaxOf(W)
Chk(W, r, n) == IF InR(W, n) THEN r = Ok(n) ELSE r = Ovf
TruncDiv(a, b) == Sgn(a) * Sgn(b) * (Abs(a) \div Abs(b))
RECURSIVE MPow(_, _)
MPow(a, n) == IF n = 0 THEN 1 ELSE a * MPow(a, n - 1)
ArithLemma ==
  ("lemma" \in DOMAIN c) =>
    LET W == LemmaW a == c.a IN
    \A b \in MinOf(W)..MaxOf(W) :
      /\ Chk(W, CAdd(W, a, b), a + b) /\ Chk(W, CSub(W, a, b), a - b) /\ Chk(W, CMul(W, a, b), a * b)
      /\ (b = 0 => CDiv(W, a, b) = Ovf /\ CRem(W, a, b) = Ovf)
      /\ (b # 0 => Chk(W, CDiv(W, a, b), TruncDiv(a, b)))
      /\ (b # 0 => IF a = MinOf(W) /\ b = -1 THEN CRem(W, a, b) = Ovf ELSE CRem(W, a, b) = Ok(a - b * TruncDiv(a, b)))
      /\ (b < 0 => CPow(W, a, b) = Ovf)
      /\ ((b >= 0 /\ b <= W + 1 /\ Abs(a) <= 3) => Chk(W, CPow(W, a, b), MPow(a, b)))
      /\ BitOp(W, a, b, BOr) = -(BitOp(W, -a - 1, -b - 1, BAnd)) - 1              \* De Morgan through two's complement
      /\ BitOp(W, a, b, BXor) = BitOp(W, a, b, BOr) - BitOp(W, a, b, BAnd)
      /\ BitOp(W, a, a, BAnd) = a
      /\ ((b >= 0 /\ b < W) => Shr(W, a, b) = (IF a >= 0 THEN a \div Pow2(b) ELSE -((-a - 1) \div Pow2(b)) - 1))
      /\ ((b >= 0 /\ b < W) => LET m == Pow2(W) r == (((a * Pow2(b)) % m) + m) % m IN Shl(W, a, b) = (IF r > MaxOf(W) THEN r - m ELSE r))
=============================================================================
