---------------------------- MODULE MC_Vars ----------------------------
(* Variables (C04): all texts `n1 + n2 * n3 ...` over a pool of names chosen to stress the Rust string order  *)
(* (upper case < '_' < lower case < Greek; a name and its extension; names that exist only in braces: leading *)
(* blank, digit, operator look-alike), bare and braced spellings of the same variable, with repetition.        *)
(* Generates replay cases with the expected sorted variable list and value.                                     *)
EXTENDS Grammar, Tables, Json
CONSTANTS MaxNames, Emit
VARIABLE seq              \* sequence of [n |-> index into Pool, b |-> braced]
T == T5
Pool == << <<66>>, <<97>>, <<95>>, <<97, 49>>, <<945>>, <<937>>, <<90>>, <<97, 97>>,     \* B a _ a1 alpha Omega Z aa
           <<32, 97>>, <<49>>, <<43>>, <<97, 32, 98>>, <<128512>> >>                      \* { a} {1} {+} {a b} {emoji}
BracedOnly == 9..13
Init == seq = <<>>
Next == Len(seq) < MaxNames /\ \E n \in 1..Len(Pool), b \in BOOLEAN :
           (n \in BracedOnly => b) /\ seq' = Append(seq, [n |-> n, b |-> b])

RECURSIVE TextFromSeq(_)
TextFromSeq(j) ==
  IF j > Len(seq) THEN <<>>
  ELSE (IF j = 1 THEN <<>> ELSE <<32>> \o T[IF j % 2 = 0 THEN 1 ELSE 3].name \o <<32>>)
       \o (IF seq[j].b THEN <<LB>> \o Pool[seq[j].n] \o <<RB>> ELSE Pool[seq[j].n]) \o TextFromSeq(j + 1)
Txt == TextFromSeq(1)
\* the reference finds exactly the distinct names, sorted, duplicate free; braced and bare spellings coincide
SpecOk ==
  Len(seq) > 0 =>
    LET d == Den(T, Txt) IN
    /\ d.st = "ok"
    /\ Range(Vars(d.toks)) = {Pool[seq[j].n] : j \in 1..Len(seq)}
    /\ IsSortedNames(Vars(d.toks))
    /\ TreeVars(d.den) = Range(Vars(d.toks))
EmitCases ==
  (Emit /\ Len(seq) > 0) => LET d == Den(T, Txt) IN PrintT(ToJson([text |-> Txt, vars |-> Vars(d.toks), den |-> d.den]))
ASSUME Emit => PrintT(ToJson([table |-> T]))
=============================================================================
