---------------------------- MODULE PartialImpl ----------------------------
(* The differentiation rules of src/expression/partial.rs (make_partial_derivative_ops, partial_deepex =     *)
(* inner x outer) transcribed on trees.  The neutral-element shortcuts of the overloaded operators and the   *)
(* nesting of DeepEx are left out: they do not change the function a derivative denotes (shortcuts: C10).     *)
(* D(T, e, x) is the derivative tree of e with respect to the variable named x; [err |-> TRUE] if an operator *)
(* without rule is met (MissingOpMode::Error).                                                                *)
EXTENDS Jets

OpBySem(T, s) == CHOOSE o \in 1..Len(T) : T[o].sem = s
OpByUSem(T, s) == CHOOSE o \in 1..Len(T) : T[o].usem = s
NumI(n) == [k |-> "num", n |-> n, d |-> 1]
B2(T, s, l, r) == Bin(OpBySem(T, s), l, r)
U1(T, s, a) == Un(OpByUSem(T, s), a)
IsZeroT(t) == t.k = "num" /\ "n" \in DOMAIN t /\ t.n = 0
\* the zero shortcuts of the overloaded operators (x + 0, 0 + x, x * 0, 0 * x, 0 / x) - the ones that remove a
\* sub-expression which could not be evaluated at the base point (e.g. ln(f) * 0 in the power rule)
TAdd(T, l, r) == IF IsZeroT(l) THEN r ELSE IF IsZeroT(r) THEN l ELSE B2(T, "add", l, r)
TSub(T, l, r) == IF IsZeroT(r) THEN l ELSE B2(T, "sub", l, r)
TMul(T, l, r) == IF IsZeroT(l) \/ IsZeroT(r) THEN NumI(0) ELSE B2(T, "mul", l, r)
TDiv(T, l, r) == IF IsZeroT(l) THEN NumI(0) ELSE B2(T, "div", l, r)
TPow(T, l, r) == B2(T, "pow", l, r)
One == NumI(1)   Two == NumI(2)
\* g - 1 is folded when g is an integer literal (as the numeric data types do)
MinusOne(T, g) == IF IntLit(g) # 99 THEN NumI(IntLit(g) - 1) ELSE TSub(T, g, One)

\* unary_outer_op of the rule table: derivative of the function at its argument a
Outer(T, s, a) ==
  CASE s = "pos"   -> One
    [] s = "neg"   -> U1(T, "neg", One)
    [] s = "sqrt"  -> TDiv(T, One, TMul(T, Two, U1(T, "sqrt", a)))
    [] s \in {"ln", "log"} -> TDiv(T, One, a)
    [] s = "log10" -> TDiv(T, One, TMul(T, a, U1(T, "ln", NumI(10))))
    [] s = "log2"  -> TDiv(T, One, TMul(T, a, U1(T, "ln", Two)))
    [] s = "exp"   -> U1(T, "exp", a)
    [] s = "sin"   -> U1(T, "cos", a)
    [] s = "cos"   -> U1(T, "neg", U1(T, "sin", a))
    [] s = "tan"   -> TDiv(T, One, TPow(T, U1(T, "cos", a), Two))
    [] s = "asin"  -> TDiv(T, One, U1(T, "sqrt", TSub(T, One, TPow(T, a, Two))))
    [] s = "acos"  -> U1(T, "neg", TDiv(T, One, U1(T, "sqrt", TSub(T, One, TPow(T, a, Two)))))
    [] s = "atan"  -> TDiv(T, One, TAdd(T, One, TPow(T, a, Two)))
    [] s = "sinh"  -> U1(T, "cosh", a)
    [] s = "cosh"  -> U1(T, "sinh", a)
    [] s = "tanh"  -> TSub(T, One, TPow(T, U1(T, "tanh", a), Two))
    [] s = "asinh" -> TDiv(T, One, U1(T, "sqrt", TAdd(T, One, TPow(T, a, Two))))
    [] s = "acosh" -> TDiv(T, One, TMul(T, U1(T, "sqrt", TSub(T, a, One)), U1(T, "sqrt", TAdd(T, a, One))))
    [] s = "atanh" -> TDiv(T, One, TSub(T, One, TPow(T, a, Two)))
HasOuter == Differentiable \cup {"pos", "neg"}

RECURSIVE D(_, _, _)
D(T, e, x) ==
  CASE e.k \in {"num", "const"} -> [err |-> FALSE, t |-> NumI(0)]
    [] e.k = "var" -> [err |-> FALSE, t |-> NumI(IF e.v = x THEN 1 ELSE 0)]
    [] e.k = "un" ->
         LET s == T[e.o].usem inner == D(T, e.a, x) IN
         IF inner.err \/ s \notin HasOuter THEN [err |-> TRUE]
         ELSE [err |-> FALSE, t |-> TMul(T, inner.t, Outer(T, s, e.a))]
    [] e.k = "bin" ->
         LET s == T[e.o].sem f == e.l g == e.r df == D(T, f, x) dg == D(T, g, x) IN
         IF df.err \/ dg.err THEN [err |-> TRUE]
         ELSE CASE s = "add" -> [err |-> FALSE, t |-> TAdd(T, df.t, dg.t)]
                [] s = "sub" -> [err |-> FALSE, t |-> TSub(T, df.t, dg.t)]
                [] s = "mul" -> [err |-> FALSE, t |-> TAdd(T, TMul(T, g, df.t), TMul(T, dg.t, f))]
                [] s = "div" -> [err |-> FALSE, t |-> TDiv(T, TSub(T, TMul(T, df.t, g), TMul(T, dg.t, f)), TMul(T, g, g))]
                [] s = "pow" -> [err |-> FALSE,
                                 t |-> TAdd(T, TMul(T, TMul(T, TPow(T, f, MinusOne(T, g)), g), df.t),
                                             TMul(T, TMul(T, TPow(T, f, g), U1(T, "ln", f)), dg.t))]
                [] OTHER -> [err |-> TRUE]
    [] OTHER -> [err |-> TRUE]

(* MissingOpMode (partial_relaxed and friends): what happens at a BINARY operator without differentiation rule.       *)
(*   "error"       : as D                                                                                               *)
(*   "per_operand" : (f op g)' = f' op g'         (partial_deri_per_operand)                                            *)
(*   "none"        : (f op g)' = f op g           (partial_derisval: the operands are kept as they were)                *)
(* A unary operator without rule is an error in every mode (partial_derivative_outer takes no mode).  A variable-free   *)
(* operand pair gives 0 in every mode: it has been folded to a number before differentiation starts.                    *)
RECURSIVE DM(_, _, _, _)
DM(T, e, x, mode) ==
  CASE e.k \in {"num", "const"} -> [err |-> FALSE, t |-> NumI(0)]
    [] e.k = "var" -> [err |-> FALSE, t |-> NumI(IF e.v = x THEN 1 ELSE 0)]
    [] e.k = "un" ->
         LET s == T[e.o].usem inner == DM(T, e.a, x, mode) IN
         IF inner.err \/ s \notin HasOuter THEN [err |-> TRUE]
         ELSE [err |-> FALSE, t |-> TMul(T, inner.t, Outer(T, s, e.a))]
    [] e.k = "bin" ->
         LET s == T[e.o].sem f == e.l g == e.r df == DM(T, f, x, mode) dg == DM(T, g, x, mode) IN
         IF df.err \/ dg.err THEN [err |-> TRUE]
         ELSE CASE s = "add" -> [err |-> FALSE, t |-> TAdd(T, df.t, dg.t)]
                [] s = "sub" -> [err |-> FALSE, t |-> TSub(T, df.t, dg.t)]
                [] s = "mul" -> [err |-> FALSE, t |-> TAdd(T, TMul(T, g, df.t), TMul(T, dg.t, f))]
                [] s = "div" -> [err |-> FALSE, t |-> TDiv(T, TSub(T, TMul(T, df.t, g), TMul(T, dg.t, f)), TMul(T, g, g))]
                [] s = "pow" -> [err |-> FALSE,
                                 t |-> TAdd(T, TMul(T, TMul(T, TPow(T, f, MinusOne(T, g)), g), df.t),
                                             TMul(T, TMul(T, TPow(T, f, g), U1(T, "ln", f)), dg.t))]
                \* a variable-free sub-expression is a number by the time it is differentiated (the deep form always folds)
                [] TreeVars(e) = {} -> [err |-> FALSE, t |-> NumI(0)]
                [] mode = "per_operand" -> [err |-> FALSE, t |-> Bin(e.o, df.t, dg.t)]
                [] mode = "none" -> [err |-> FALSE, t |-> Bin(e.o, f, g)]
                [] OTHER -> [err |-> TRUE]
    [] OTHER -> [err |-> TRUE]
\* the strict mode is D
DMIsD(T, e, x) == DM(T, e, x, "error") = D(T, e, x)
=============================================================================
