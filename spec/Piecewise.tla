---------------------------- MODULE Piecewise ----------------------------
(* Series evaluation of value-typed, piecewise expressions (C18): `a if c else b` selects the branch by the   *)
(* condition at the base point; conditions are comparisons of polynomial expressions and are decided in exact    *)
(* rational arithmetic (the prime field is not ordered).                                                          *)
EXTENDS Jets

RECURSIVE Gcd(_, _)
Gcd(a, b) == IF b = 0 THEN a ELSE Gcd(b, a % b)
AbsI(x) == IF x < 0 THEN -x ELSE x
RLIM == 20000
RNorm(n, d) ==     \* d # 0
  LET g == Gcd(AbsI(n), AbsI(d)) s == IF d < 0 THEN -1 ELSE 1 IN
  IF AbsI(n) > RLIM * RLIM \/ AbsI(d) > RLIM * RLIM THEN [ok |-> FALSE]
  ELSE LET nn == s * (n \div g) dd == s * (d \div g) IN
       IF AbsI(nn) > RLIM \/ dd > RLIM THEN [ok |-> FALSE] ELSE [ok |-> TRUE, n |-> nn, d |-> dd]
RBad == [ok |-> FALSE]
\* decimal literal text -> rational
RECURSIVE RLit(_, _, _, _, _)
RLit(s, i, num, den, dot) ==
  IF i > Len(s) THEN RNorm(num, den)
  ELSE IF s[i] = 46 THEN RLit(s, i + 1, num, den, TRUE)
  ELSE IF num > 100000 THEN RBad
  ELSE RLit(s, i + 1, num * 10 + (s[i] - 48), IF dot THEN den * 10 ELSE den, dot)
RECURSIVE RPow(_, _)
RPow(a, n) == IF n = 0 THEN [ok |-> TRUE, n |-> 1, d |-> 1]
              ELSE LET r == RPow(a, n - 1) IN IF ~r.ok THEN RBad ELSE RNorm(r.n * a.n, r.d * a.d)
\* rpt = [names |-> Seq(name), n |-> Seq(Int), d |-> Seq(Int)]
RECURSIVE RatEval(_, _, _)
RatEval(T, t, rpt) ==
  CASE t.k = "num" -> IF "n" \in DOMAIN t THEN (IF "big" \in DOMAIN t THEN RBad ELSE RNorm(t.n, t.d)) ELSE RLit(t.v, 1, 0, 1, FALSE)
    [] t.k = "var" -> LET j == IndexOf(rpt.names, t.v, 1) IN IF j = 0 THEN RBad ELSE RNorm(rpt.n[j], rpt.d[j])
    [] t.k = "un" -> LET a == RatEval(T, t.a, rpt) s == T[t.o].usem IN
                     IF ~a.ok THEN RBad ELSE IF s = "neg" THEN RNorm(-a.n, a.d) ELSE IF s = "pos" THEN a ELSE RBad
    [] t.k = "bin" ->
         LET a == RatEval(T, t.l, rpt) b == RatEval(T, t.r, rpt) s == T[t.o].sem IN
         IF ~a.ok \/ ~b.ok THEN RBad
         ELSE CASE s = "add" -> RNorm(a.n * b.d + b.n * a.d, a.d * b.d)
                [] s = "sub" -> RNorm(a.n * b.d - b.n * a.d, a.d * b.d)
                [] s = "mul" -> RNorm(a.n * b.n, a.d * b.d)
                [] s = "div" -> IF b.n = 0 THEN RBad ELSE RNorm(a.n * b.d, a.d * b.n)
                [] s = "pow" -> IF b.d = 1 /\ b.n >= 0 /\ b.n <= 4 THEN RPow(a, b.n) ELSE RBad
                [] s = "min" -> IF a.n * b.d <= b.n * a.d THEN a ELSE b
                [] s = "max" -> IF a.n * b.d >= b.n * a.d THEN a ELSE b
                [] OTHER -> RBad
    [] OTHER -> RBad
CmpSems == {"gt", "lt", "ge", "le", "eq", "ne"}
\* [ok, b]
CondVal(T, t, rpt) ==
  IF t.k = "bin" /\ T[t.o].sem \in CmpSems
  THEN LET a == RatEval(T, t.l, rpt) b == RatEval(T, t.r, rpt) s == T[t.o].sem IN
       IF ~a.ok \/ ~b.ok THEN [ok |-> FALSE]
       ELSE LET x == a.n * b.d y == b.n * a.d IN
            [ok |-> TRUE, b |-> CASE s = "gt" -> x > y [] s = "lt" -> x < y [] s = "ge" -> x >= y [] s = "le" -> x <= y
                                   [] s = "eq" -> x = y [] s = "ne" -> x # y]
  ELSE IF t.k = "bool" THEN [ok |-> TRUE, b |-> t.b]
  ELSE [ok |-> FALSE]

(* [st |-> "jet", j] | [st |-> "none"] | [st |-> "bad", why]  (bad = inconclusive, except why = "error value") *)
PJ(j) == [st |-> "jet", j |-> j]
PNone == [st |-> "none"]
PBad(why) == [st |-> "bad", why |-> why]
RECURSIVE PJet(_, _, _, _)
PJet(T, t, env, rpt) ==
  CASE t.k = "sym" -> PJ(JConst(CASE t.s = "ln2" -> LN2 [] t.s = "ln10" -> LN10 [] OTHER -> HPI))
    [] t.k = "err" -> PBad("error value")
    [] t.k \in {"none"} -> PNone
    [] t.k = "bool" -> PBad("boolean used as number")
    [] t.k = "bin" /\ T[t.o].sem = "if" ->
         LET c == CondVal(T, t.r, rpt) IN
         IF ~c.ok THEN PBad("condition not decidable") ELSE IF c.b THEN PJet(T, t.l, env, rpt) ELSE PNone
    [] t.k = "bin" /\ T[t.o].sem = "else" ->
         LET a == PJet(T, t.l, env, rpt) IN IF a.st = "none" THEN PJet(T, t.r, env, rpt) ELSE a
    [] t.k = "bin" /\ T[t.o].sem \in CmpSems -> PBad("comparison used as number")
    [] t.k = "bin" ->
         LET a == PJet(T, t.l, env, rpt) b == PJet(T, t.r, env, rpt) IN
         IF a.st # "jet" THEN (IF a.st = "none" THEN PBad("none in arithmetic") ELSE a)
         ELSE IF b.st # "jet" THEN (IF b.st = "none" THEN PBad("none in arithmetic") ELSE b)
         ELSE \* both operands are series: evaluate the operator on placeholder variables
              LET r == JetEval(T, Bin(t.o, Var(<<1>>), IF T[t.o].sem = "pow" /\ ConstExp(T, t.r) # 99 THEN t.r ELSE Var(<<2>>)),
                               [names |-> << <<1>>, <<2>> >>, jets |-> <<a.j, b.j>>])
              IN IF r.ok THEN PJ(r.j) ELSE PBad(r.why)
    [] t.k = "un" ->
         LET a == PJet(T, t.a, env, rpt) IN
         IF a.st # "jet" THEN (IF a.st = "none" THEN PBad("none in arithmetic") ELSE a)
         ELSE IF T[t.o].usem \in {"ln", "log"} /\ (IsNumVal(t.a, 2) \/ IsNumVal(t.a, 10)) THEN LET r == JetEval(T, t, env) IN IF r.ok THEN PJ(r.j) ELSE PBad(r.why)
         ELSE LET r == JetEval(T, Un(t.o, Var(<<1>>)), [names |-> << <<1>> >>, jets |-> <<a.j>>]) IN IF r.ok THEN PJ(r.j) ELSE PBad(r.why)
    [] OTHER -> LET r == JetEval(T, t, env) IN IF r.ok THEN PJ(r.j) ELSE PBad(r.why)
=============================================================================
