---------------------------- MODULE Ref ----------------------------
(* Reference semantics of exmex expressions, independent of how exmex is coded.                   *)
(*   WellFormed : the documented grammar on token sequences                                       *)
(*   RefParse   : declarative meaning (parentheses first, unary tighter than any binary and        *)
(*                right-to-left, lowest-priority-rightmost binary operator applied last)          *)
(*   Parse      : linear operator-precedence formulation of the same meaning (used on big inputs; *)
(*                TLC checks Parse = RefParse on the bounded domain, see MC_Ref)                   *)
(*   Norm       : normal form modulo associativity/commutativity of operators flagged `comm`      *)
(*   Vars       : sorted duplicate-free variable list                                             *)
EXTENDS Lex, Bags, TLC

\* ---- trees
Num(v)       == [k |-> "num",   v |-> v]
Var(v)       == [k |-> "var",   v |-> v]
Const(o)     == [k |-> "const", c |-> o]      \* own field name: bags must not compare an id with a literal
Un(o, a)     == [k |-> "un",  o |-> o, a |-> a]
Bin(o, l, r) == [k |-> "bin", o |-> o, l |-> l, r |-> r]

IsOperandTok(tk) == tk.t \in {"num", "var", "const"}
LeafOf(tk) == CASE tk.t = "num" -> Num(tk.v) [] tk.t = "var" -> Var(tk.v) [] tk.t = "const" -> Const(tk.v)

(* A sign / dual operator is unary exactly when it starts the text or follows an operator or an   *)
(* opening parenthesis; an operator that can only be binary is binary, one that can only be unary *)
(* is unary.                                                                                       *)
IsBinAt(T, toks, i) ==
  LET o == T[toks[i].v] IN
  IF o.bin /\ ~o.un THEN TRUE
  ELSE IF o.bin /\ o.un THEN i > 1 /\ (IsOperandTok(toks[i - 1]) \/ toks[i - 1].t = "close")
  ELSE FALSE

(* Grammar:  Expr ::= Operand (BinOp Operand)* ;  Operand ::= UnOp* Atom ;  Atom ::= num | var |   *)
(* const | '(' Expr ')'.  ph = "E": an operand is expected, ph = "O": an operator or ')' is expected *)
RECURSIVE WF(_, _, _, _, _)
WF(T, toks, i, ph, d) ==
  IF i > Len(toks) THEN ph = "O" /\ d = 0
  ELSE LET tk == toks[i] IN
    IF ph = "E" THEN
      CASE IsOperandTok(tk) -> WF(T, toks, i + 1, "O", d)
        [] tk.t = "open"  -> WF(T, toks, i + 1, "E", d + 1)
        [] tk.t = "op"    -> T[tk.v].un /\ WF(T, toks, i + 1, "E", d)
        [] OTHER -> FALSE
    ELSE
      CASE tk.t = "op"    -> T[tk.v].bin /\ WF(T, toks, i + 1, "E", d)
        [] tk.t = "close" -> d > 0 /\ WF(T, toks, i + 1, "O", d - 1)
        [] OTHER -> FALSE
WellFormed(T, toks) == Len(toks) > 0 /\ WF(T, toks, 1, "E", 0)

\* ---- declarative meaning ---------------------------------------------------------------------
RECURSIVE DepthAt(_, _)
DepthAt(toks, i) == IF i = 1 THEN 0
                    ELSE DepthAt(toks, i - 1) + (CASE toks[i - 1].t = "open" -> 1 [] toks[i - 1].t = "close" -> -1 [] OTHER -> 0)
TopBin(T, toks) == {i \in 1..Len(toks) : toks[i].t = "op" /\ IsBinAt(T, toks, i) /\ DepthAt(toks, i) = 0}
LastApplied(T, toks) ==
  LET S == TopBin(T, toks) IN
  CHOOSE i \in S : \A j \in S : \/ T[toks[i].v].prio < T[toks[j].v].prio
                               \/ (T[toks[i].v].prio = T[toks[j].v].prio /\ i >= j)
RECURSIVE RefParse(_, _)
RefParse(T, toks) ==
  IF TopBin(T, toks) # {} THEN
     LET i == LastApplied(T, toks)
     IN Bin(toks[i].v, RefParse(T, SubSeq(toks, 1, i - 1)), RefParse(T, SubSeq(toks, i + 1, Len(toks))))
  ELSE IF toks[1].t = "op" THEN Un(toks[1].v, RefParse(T, Tail(toks)))
  ELSE IF toks[1].t = "open" THEN RefParse(T, SubSeq(toks, 2, Len(toks) - 1))
  ELSE LeafOf(toks[1])

\* ---- linear formulation (operator precedence with two stacks) ---------------------------------
\* stack entries: [kind |-> "bin"|"un"|"open", o |-> operator id]
RECURSIVE WrapUn(_, _)       \* apply pending unary operators to the operand on top of `out`
WrapUn(out, st) ==
  IF Len(st) > 0 /\ st[Len(st)].kind = "un"
  THEN WrapUn([out EXCEPT ![Len(out)] = Un(st[Len(st)].o, @)], SubSeq(st, 1, Len(st) - 1))
  ELSE [out |-> out, st |-> st]
Combine(out, o) == Append(SubSeq(out, 1, Len(out) - 2), Bin(o, out[Len(out) - 1], out[Len(out)]))
RECURSIVE PopGE(_, _, _, _)  \* apply stacked binary operators of priority >= p (left to right among equals)
PopGE(T, out, st, p) ==
  IF Len(st) > 0 /\ st[Len(st)].kind = "bin" /\ T[st[Len(st)].o].prio >= p
  THEN PopGE(T, Combine(out, st[Len(st)].o), SubSeq(st, 1, Len(st) - 1), p)
  ELSE [out |-> out, st |-> st]
RECURSIVE SY(_, _, _, _, _)
SY(T, toks, i, out, st) ==
  IF i > Len(toks) THEN PopGE(T, out, st, -1).out[1]
  ELSE LET tk == toks[i] IN
    CASE IsOperandTok(tk) ->
           LET w == WrapUn(Append(out, LeafOf(tk)), st) IN SY(T, toks, i + 1, w.out, w.st)
      [] tk.t = "open"  -> SY(T, toks, i + 1, out, Append(st, [kind |-> "open", o |-> 0]))
      [] tk.t = "close" ->
           LET r == PopGE(T, out, st, -1)
               w == WrapUn(r.out, SubSeq(r.st, 1, Len(r.st) - 1))
           IN SY(T, toks, i + 1, w.out, w.st)
      [] tk.t = "op" ->
           IF IsBinAt(T, toks, i)
           THEN LET r == PopGE(T, out, st, T[tk.v].prio)
                IN SY(T, toks, i + 1, r.out, Append(r.st, [kind |-> "bin", o |-> tk.v]))
           ELSE SY(T, toks, i + 1, out, Append(st, [kind |-> "un", o |-> tk.v]))
Parse(T, toks) == SY(T, toks, 1, <<>>, <<>>)

\* ---- meaning of a text ---------------------------------------------------------------------------
\* [st |-> "ok", den |-> tree] | [st |-> "err"] | [st |-> "unspec"]
Den(T, txt) ==
  LET tk == Tokens(T, txt) IN
  IF tk.st # "ok" THEN [st |-> tk.st]
  ELSE IF ~WellFormed(T, tk.toks) THEN [st |-> "err"]
  ELSE [st |-> "ok", den |-> Parse(T, tk.toks), toks |-> tk.toks]

\* ---- normal form modulo AC of flagged operators ---------------------------------------------------
RECURSIVE Norm(_, _)
RECURSIVE Args(_, _, _)
Args(T, o, t) == IF t.k = "bin" /\ t.o = o THEN Args(T, o, t.l) (+) Args(T, o, t.r) ELSE SetToBag({Norm(T, t)})
Norm(T, t) ==
  CASE t.k \in {"num", "var", "const"} -> t
    [] t.k = "un"  -> Un(t.o, Norm(T, t.a))
    [] t.k = "bin" -> IF T[t.o].comm THEN [k |-> "ac", o |-> t.o, args |-> Args(T, t.o, t)]
                      ELSE Bin(t.o, Norm(T, t.l), Norm(T, t.r))
    [] OTHER -> t          \* "hole", "err": only equal to themselves
Same(T, a, b) == Norm(T, a) = Norm(T, b)

\* ---- variables -----------------------------------------------------------------------------------------
VarSet(toks) == {toks[i].v : i \in {j \in 1..Len(toks) : toks[j].t = "var"}}
Vars(toks) == SortNames(VarSet(toks))
RECURSIVE TreeVars(_)
TreeVars(t) ==
  CASE t.k = "var" -> {t.v}
    [] t.k = "un"  -> TreeVars(t.a)
    [] t.k = "bin" -> TreeVars(t.l) \cup TreeVars(t.r)
    [] OTHER -> {}
RECURSIVE Size(_)
Size(t) == CASE t.k = "un" -> 1 + Size(t.a) [] t.k = "bin" -> 1 + Size(t.l) + Size(t.r) [] OTHER -> 1
RECURSIVE OpsIn(_)    \* operator ids occurring in a tree, as [un, bin] sets
OpsIn(t) ==
  CASE t.k = "un"  -> LET r == OpsIn(t.a) IN [un |-> r.un \cup {t.o}, bin |-> r.bin]
    [] t.k = "bin" -> LET a == OpsIn(t.l) b == OpsIn(t.r) IN [un |-> a.un \cup b.un, bin |-> a.bin \cup b.bin \cup {t.o}]
    [] OTHER -> [un |-> {}, bin |-> {}]

\* ---- operator listings (C03) -------------------------------------------------------------------------
RECURSIVE Applied(_)       \* operators applied to an operand that depends on a variable
Applied(t) ==
  CASE t.k = "un"  -> LET r == Applied(t.a) IN
                      [un |-> r.un \cup (IF TreeVars(t.a) # {} THEN {t.o} ELSE {}), bin |-> r.bin]
    [] t.k = "bin" -> LET a == Applied(t.l) b == Applied(t.r) IN
                      [un |-> a.un \cup b.un,
                       bin |-> a.bin \cup b.bin \cup (IF TreeVars(t.l) \cup TreeVars(t.r) # {} THEN {t.o} ELSE {})]
    [] OTHER -> [un |-> {}, bin |-> {}]
RECURSIVE HasConstOpSub(_) \* some variable-free sub-expression contains an operator
HasConstOpSub(t) ==
  CASE t.k = "un"  -> TreeVars(t.a) = {} \/ HasConstOpSub(t.a)
    [] t.k = "bin" -> TreeVars(t) = {} \/ HasConstOpSub(t.l) \/ HasConstOpSub(t.r)
    [] OTHER -> FALSE
NamesOf(T, S) == {T[o].name : o \in S}
Range(s) == {s[j] : j \in DOMAIN s}
(* A listing is sorted in Rust string order without duplicates, contains every operator applied to a    *)
(* variable-dependent operand and nothing that does not occur in the text.                               *)
ListingOk(T, den, lst) ==
  LET ap == Applied(den) oc == OpsIn(den) IN
  /\ IsSortedNames(lst.bin) /\ IsSortedNames(lst.un) /\ IsSortedNames(lst.all)
  /\ NamesOf(T, ap.bin) \subseteq Range(lst.bin) /\ Range(lst.bin) \subseteq NamesOf(T, oc.bin)
  /\ NamesOf(T, ap.un) \subseteq Range(lst.un) /\ Range(lst.un) \subseteq NamesOf(T, oc.un)
  /\ NamesOf(T, ap.bin \cup ap.un) \subseteq Range(lst.all) /\ Range(lst.all) \subseteq NamesOf(T, oc.bin \cup oc.un)
=============================================================================
