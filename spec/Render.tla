---------------------------- MODULE Render ----------------------------
(* All the ways a tree can be written down: token sequences with minimal or redundant parentheses, *)
(* call form for binary operators, and texts with different spacing and braced/bare variables.      *)
EXTENDS Ref

Par(s) == <<TOpen>> \o s \o <<TClose>>
LeafTok(t) == CASE t.k = "num" -> TNum(t.v) [] t.k = "var" -> TVar(t.v) [] t.k = "const" -> TConst(t.c)

(* Preorder numbering: the node itself has index idx, its (left) child idx+1, its right child        *)
(* idx+1+Size(left).  W = indices that get an extra pair of parentheses, uc = unary arguments are     *)
(* always parenthesised, Cf = indices of binary nodes written in call form `op(l, r)`.                *)
RECURSIVE Rend(_, _, _, _, _, _)
Rend(T, t, idx, W, uc, Cf) ==
  LET core ==
        CASE t.k \in {"num", "var", "const"} -> <<LeafTok(t)>>
          [] t.k = "un" ->
               LET a == Rend(T, t.a, idx + 1, W, uc, Cf)
               IN <<TOp(t.o)>> \o (IF (t.a.k = "bin" /\ (idx + 1) \notin Cf) \/ uc THEN Par(a) ELSE a)
          [] t.k = "bin" ->
               LET p  == T[t.o].prio
                   li == idx + 1
                   ri == idx + 1 + Size(t.l)
                   l  == Rend(T, t.l, li, W, uc, Cf)
                   r  == Rend(T, t.r, ri, W, uc, Cf)
               IN IF idx \in Cf THEN <<TOp(t.o), TOpen>> \o l \o <<TComma>> \o r \o <<TClose>>
                  ELSE (IF t.l.k = "bin" /\ li \notin Cf /\ T[t.l.o].prio <  p THEN Par(l) ELSE l)
                       \o <<TOp(t.o)>> \o
                       (IF t.r.k = "bin" /\ ri \notin Cf /\ T[t.r.o].prio <= p THEN Par(r) ELSE r)
  IN IF idx \in W THEN Par(core) ELSE core

RECURSIVE NodeIdx(_, _)     \* preorder indices of nodes by kind: [leaf, inner, bin]
NodeIdx(t, idx) ==
  CASE t.k = "un"  -> LET a == NodeIdx(t.a, idx + 1) IN [leaf |-> a.leaf, inner |-> a.inner \cup {idx}, bin |-> a.bin]
    [] t.k = "bin" -> LET a == NodeIdx(t.l, idx + 1)
                          b == NodeIdx(t.r, idx + 1 + Size(t.l))
                      IN [leaf |-> a.leaf \cup b.leaf, inner |-> a.inner \cup b.inner \cup {idx}, bin |-> a.bin \cup b.bin \cup {idx}]
    [] OTHER -> [leaf |-> {idx}, inner |-> {}, bin |-> {}]

ParenModes == {"min", "ucall", "full", "leaf", "all"}
Render(T, t, mode) ==
  LET ix == NodeIdx(t, 1) IN
  CASE mode = "min"   -> Rend(T, t, 1, {}, FALSE, {})
    [] mode = "ucall" -> Rend(T, t, 1, {}, TRUE, {})
    [] mode = "full"  -> Rend(T, t, 1, ix.inner, FALSE, {})
    [] mode = "leaf"  -> Rend(T, t, 1, ix.leaf, FALSE, {})
    [] mode = "all"   -> Rend(T, t, 1, ix.inner \cup ix.leaf, TRUE, {})
RenderOne(T, t, k) == Rend(T, t, 1, {k}, FALSE, {})
RenderCall(T, t, Cf, W) == Rend(T, t, 1, W, FALSE, Cf)

\* ---- token sequence -> text ------------------------------------------------------------------------
TokText(T, tk, br) ==
  CASE tk.t = "num" -> tk.v
    [] tk.t = "var" -> IF br THEN <<LB>> \o tk.v \o <<RB>> ELSE tk.v
    [] tk.t \in {"op", "const"} -> T[tk.v].name
    [] tk.t = "open" -> <<LP>>
    [] tk.t = "close" -> <<RP>>
    [] tk.t = "comma" -> <<COMMA>>

Glue(c) == IsIdChar(c) \/ c = DOT
\* in tight spacing a blank is needed only where juxtaposition would change the tokens
NeedSep(T, a, b, br) ==
  LET ta == TokText(T, a, br)
      tb == TokText(T, b, br)
  IN \/ Glue(ta[Len(ta)]) /\ Glue(tb[1])
     \/ /\ a.t \in {"op", "const"}
        /\ \E o \in OpIds(T) : Len(T[o].name) > Len(ta) /\ StartsWithAt(ta \o tb, 1, T[o].name)

RECURSIVE TextFrom(_, _, _, _, _)
TextFrom(T, toks, i, sp, br) ==
  IF i > Len(toks) THEN <<>>
  ELSE LET sep == IF i = 1 THEN <<>>
                  ELSE CASE sp = "spaced" -> <<SP>>
                         [] sp = "wide"   -> <<SP, SP>>
                         [] sp = "tight"  -> IF NeedSep(T, toks[i - 1], toks[i], br) THEN <<SP>> ELSE <<>>
       IN sep \o TokText(T, toks[i], br) \o TextFrom(T, toks, i + 1, sp, br)
Text(T, toks, sp, br) ==
  IF sp = "wide" THEN <<SP>> \o TextFrom(T, toks, 1, sp, br) \o <<SP, SP>> ELSE TextFrom(T, toks, 1, sp, br)
=============================================================================
