---------------------------- MODULE Stmts ----------------------------
(* The statement store (src/statements.rs, "work in progress" in the library): the one API of exmex that keeps       *)
(* mutable state between calls.  A session is a sequence of text lines:                                                *)
(*   `name = expr`   assigns: the store maps name to the value of expr (if expr has no variables) or to expr itself;    *)
(*                   a second assignment to the same name replaces the entry in place                                  *)
(*   `expr`          evaluates: every variable that has a store entry is replaced by it - ONE level, an entry that      *)
(*                   itself contains variables leaves them in - and the result must be variable free                    *)
(* No listed property speaks about this module beyond "no crash" (C06); the machine is specified as the code behaves   *)
(* on unambiguous lines and leaves the rest unconstrained.  Differences are reported as drift, never as violations.    *)
(* store = sequence of [name, k |-> "val" | "expr", vars, den]                                                          *)
EXTENDS Exmex, Grammar

EQ == 61
IsBlank(c) == c = 32 \/ c = 9
RECURSIVE FindCh(_, _, _)
FindCh(s, c, i) == IF i > Len(s) THEN 0 ELSE IF s[i] = c THEN i ELSE FindCh(s, c, i + 1)
RECURSIVE TrimL(_)
TrimL(s) == IF Len(s) > 0 /\ IsBlank(s[1]) THEN TrimL(Tail(s)) ELSE s
RECURSIVE TrimR(_)
TrimR(s) == IF Len(s) > 0 /\ IsBlank(s[Len(s)]) THEN TrimR(SubSeq(s, 1, Len(s) - 1)) ELSE s
Trim(s) == TrimR(TrimL(s))
\* detail::parse: split at '=', only the first two pieces count
SplitLine(line) ==
  LET p1 == FindCh(line, EQ, 1) IN
  IF p1 = 0 THEN [lhs |-> "none", rhs |-> line]
  ELSE LET p2 == FindCh(line, EQ, p1 + 1)
           l  == Trim(SubSeq(line, 1, p1 - 1))
       IN [lhs |-> IF FindCh(l, 32, 1) # 0 \/ FindCh(l, 40, 1) # 0 THEN "fn" ELSE "var", name |-> l,
           rhs |-> SubSeq(line, p1 + 1, IF p2 = 0 THEN Len(line) ELSE p2 - 1)]

StoreIdx(store, nm) == LET S == {j \in 1..Len(store) : store[j].name = nm} IN IF S = {} THEN 0 ELSE CHOOSE j \in S : TRUE
Insert(store, ent) == LET j == StoreIdx(store, ent.name) IN IF j = 0 THEN Append(store, ent) ELSE [store EXCEPT ![j] = ent]
\* one-level substitution of the stored entries
Resolve(store, den, vars) ==
  Subst(den, [q \in 1..Len(vars) |-> <<vars[q], LET j == StoreIdx(store, vars[q]) IN IF j = 0 THEN Var(vars[q]) ELSE store[j].den>>])

(* Effect of one line: [o |-> "err" | "assigned" | "value" | "evalerr" | "free", store |-> store after the line, ...] *)
LineEffect(T, store, line) ==
  LET sp  == SplitLine(line)
      cls == Classify(T, sp.rhs)
  IN IF cls = "must" THEN [o |-> "err", store |-> store]
     ELSE IF cls # "wf" THEN [o |-> "free", store |-> store]
     ELSE LET d == Den(T, sp.rhs) vs == Vars(d.toks) IN
          IF sp.lhs = "fn" THEN [o |-> "err", store |-> store]                       \* `f(a) = ...` is not supported
          ELSE IF sp.lhs = "var"
          THEN LET ent == [name |-> sp.name, k |-> IF Len(vs) = 0 THEN "val" ELSE "expr", vars |-> vs, den |-> d.den] IN
               [o |-> "assigned", ent |-> ent, store |-> Insert(store, ent)]
          ELSE LET t == Resolve(store, d.den, vs) IN
               IF TreeVars(t) = {} THEN [o |-> "value", den |-> t, store |-> store] ELSE [o |-> "evalerr", store |-> store]
=============================================================================
