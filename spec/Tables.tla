---------------------------- MODULE Tables ----------------------------
(* Model operator tables.  Names are code-point sequences (comments give the spelling).              *)
EXTENDS Integers, Sequences

B(nm, p, c)  == [name |-> nm, bin |-> TRUE,  un |-> FALSE, const |-> FALSE, prio |-> p, comm |-> c]
D(nm, p, c)  == [name |-> nm, bin |-> TRUE,  un |-> TRUE,  const |-> FALSE, prio |-> p, comm |-> c]
U(nm)        == [name |-> nm, bin |-> FALSE, un |-> TRUE,  const |-> FALSE, prio |-> 0, comm |-> FALSE]
K(nm)        == [name |-> nm, bin |-> FALSE, un |-> FALSE, const |-> TRUE,  prio |-> 0, comm |-> FALSE]

(* T8: binary operators at priorities {0, 50, 99} x {commutative, non-commutative}, two different    *)
(* commutative operators sharing priority 0, two dual (sign) operators, two alphabetic binary names,  *)
(* two unary functions and a constant.                                                                 *)
T8 == << B(<<124>>,       0,  TRUE),     \* 1  |
         D(<<43>>,        0,  TRUE),     \* 2  +   (also unary)
         B(<<109, 110>>,  0,  FALSE),    \* 3  mn
         B(<<42>>,        50, TRUE),     \* 4  *
         D(<<45>>,        50, FALSE),    \* 5  -   (also unary)
         B(<<37>>,        50, FALSE),    \* 6  %
         B(<<38>>,        99, TRUE),     \* 7  &
         B(<<112, 119>>,  99, FALSE),    \* 8  pw
         U(<<115, 110>>),                \* 9  sn
         U(<<99, 115>>),                 \* 10 cs
         K(<<75>>) >>                    \* 11 K

(* T5: a smaller table for deeper bounds: + (0, comm, dual), - (0, non-comm, dual), * (50, comm),     *)
(* % (50, non-comm), sn.                                                                               *)
T5 == << D(<<43>>,  0,  TRUE),
         D(<<45>>,  0,  FALSE),
         B(<<42>>,  50, TRUE),
         B(<<37>>,  50, FALSE),
         U(<<115, 110>>) >>
(* T5c: call-form table: alphabetic binaries f (0, non-comm), g (50, comm), symbolic * (50, comm),   *)
(* dual - (0, non-comm), unary u.                                                                       *)
T5c == << B(<<102>>, 0, FALSE), B(<<103>>, 50, TRUE), B(<<42>>, 50, TRUE), D(<<45>>, 0, FALSE), U(<<117>>) >>
(* TChain: eight non-commutative binary operators with pairwise distinct priorities (C14).            *)
TChain == << B(<<33>>, 10, FALSE), B(<<35>>, 20, FALSE), B(<<36>>, 30, FALSE), B(<<37>>, 40, FALSE),
             B(<<38>>, 50, FALSE), B(<<42>>, 60, FALSE), B(<<47>>, 70, FALSE), B(<<58>>, 80, FALSE) >>
(* T3: minimal table for 5-leaf bounds: + (0, comm), mn (0, non-comm), * (50, comm).                   *)
T3 == << B(<<43>>,       0,  TRUE),
         B(<<109, 110>>, 0,  FALSE),
         B(<<42>>,       50, TRUE) >>
(* TAdv: names that collide when written without separators: binary `at` + unary `an` = unary `atan`; binary `s` +  *)
(* unary `n` = identifier `sn`; a constant `e`; a dual sign.                                                         *)
TAdv == << B(<<97, 116>>, 0, FALSE),        \* 1 at
           B(<<115>>, 50, TRUE),            \* 2 s
           D(<<45>>, 50, FALSE),            \* 3 -
           U(<<97, 110>>),                  \* 4 an
           U(<<110>>),                      \* 5 n
           U(<<97, 116, 97, 110>>),         \* 6 atan
           K(<<101>>) >>                    \* 7 e

=============================================================================
