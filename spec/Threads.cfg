CONSTANT Clients = {1, 2, 3}
CONSTANT NOps = 3
SPECIFICATION Spec
INVARIANT SequentialResults
INVARIANT PrefixOfSequential
INVARIANT InitOnce
PROPERTY PoolImmutable
PROPERTY AllFinish
CHECK_DEADLOCK TRUE
