---------------------------- MODULE Threads ----------------------------
(* Concurrent use of exmex (C20): N clients run programs of Parse / Eval calls against a shared pool of           *)
(* immutable expressions.  The only shared mutable state of the library is the lazily initialised regex cell      *)
(* (lazy_static: uninit -> running(c) -> ready; a client that needs the cell while another one initialises it     *)
(* blocks).  Parse and Eval are functions of their arguments only and leave the pool unchanged.                   *)
(*   - every interleaving gives every client exactly the results of a sequential run (SeqResults)                  *)
(*   - the pool never changes, the cell is initialised exactly once                                                *)
(*   - no deadlock; under weak fairness every client finishes                                                      *)
EXTENDS Integers, Sequences, FiniteSets, TLC
CONSTANTS Clients, NOps
VARIABLES once, pc, res, inits, pool

Texts == 1..2                     \* two texts to parse
PoolIds == 1..2                   \* two shared expressions
\* client c runs the program: alternately parse text (c + k) mod 2 and evaluate shared expression (c + k) mod 2
Op(c, k) == IF k % 2 = 1 THEN [kind |-> "parse", arg |-> ((c + k) % 2) + 1] ELSE [kind |-> "eval", arg |-> ((c + k) % 2) + 1, val |-> c * 10 + k]
\* the (abstract) functions computed by the library
ParseFn(t) == t * 100 + 7
EvalFn(e, v) == e * 1000 + v
SeqResults(c) == [k \in 1..NOps |-> IF Op(c, k).kind = "parse" THEN ParseFn(Op(c, k).arg) ELSE EvalFn(pool[Op(c, k).arg], Op(c, k).val)]

Init == /\ once = [st |-> "uninit", by |-> 0] /\ pc = [c \in Clients |-> 1] /\ res = [c \in Clients |-> <<>>] /\ inits = 0
        /\ pool = [e \in PoolIds |-> e + 40]
Done(c) == pc[c] > NOps
\* a parse needs the regex cell
BeginInit(c) == /\ ~Done(c) /\ Op(c, pc[c]).kind = "parse" /\ once.st = "uninit"
                /\ once' = [st |-> "running", by |-> c] /\ inits' = inits + 1 /\ UNCHANGED <<pc, res, pool>>
EndInit(c) == /\ once = [st |-> "running", by |-> c] /\ once' = [st |-> "ready", by |-> c] /\ UNCHANGED <<pc, res, inits, pool>>
DoParse(c) == /\ ~Done(c) /\ Op(c, pc[c]).kind = "parse" /\ once.st = "ready"
              /\ res' = [res EXCEPT ![c] = Append(@, ParseFn(Op(c, pc[c]).arg))] /\ pc' = [pc EXCEPT ![c] = @ + 1]
              /\ UNCHANGED <<once, inits, pool>>
DoEval(c) == /\ ~Done(c) /\ Op(c, pc[c]).kind = "eval"
             /\ res' = [res EXCEPT ![c] = Append(@, EvalFn(pool[Op(c, pc[c]).arg], Op(c, pc[c]).val))] /\ pc' = [pc EXCEPT ![c] = @ + 1]
             /\ UNCHANGED <<once, inits, pool>>
Finished == (\A c \in Clients : Done(c)) /\ UNCHANGED <<once, pc, res, inits, pool>>
Next == (\E c \in Clients : BeginInit(c) \/ EndInit(c) \/ DoParse(c) \/ DoEval(c)) \/ Finished
vars == <<once, pc, res, inits, pool>>
Spec == Init /\ [][Next]_vars /\ WF_vars(\E c \in Clients : BeginInit(c) \/ EndInit(c) \/ DoParse(c) \/ DoEval(c))

SequentialResults == \A c \in Clients : Done(c) => res[c] = SeqResults(c)
PrefixOfSequential == \A c \in Clients : res[c] = SubSeq(SeqResults(c), 1, Len(res[c]))
InitOnce == inits <= 1 /\ (once.st = "ready" => inits = 1)
PoolImmutable == [][pool' = pool]_vars
AllFinish == <>(\A c \in Clients : Done(c))
=============================================================================
