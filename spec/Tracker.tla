---------------------------- MODULE Tracker ----------------------------
(* Bit-level model of src/expression/number_tracker.rs at word size W (real code: W = 64) and NW words:   *)
(* `impl NumberTracker for usize` (rotate_right, leading_ones, trailing_ones) and `for [usize]` (fast     *)
(* path on the word of idx, carry over all-ones words).  The code adds the literal 64 per full word; the  *)
(* model adds W, which coincides on the platforms where usize::BITS = 64 (assumption).                     *)
(* The reachable state is a function of the SET of operators already applied (number j is consumed iff    *)
(* operator j-1 was applied - invariant BitsMeanDead), so exploring all subsets covers ALL schedules.     *)
(* Agree: for every operator not yet applied the bit-level answers of get_previous / get_next equal the    *)
(* nearest live operand on the left / right.                                                               *)
EXTENDS Integers, Sequences, FiniteSets, TLC
CONSTANTS W, NW, N, SingleWord    \* N numbers (operands); SingleWord: use the `usize` impl (requires N <= W)
VARIABLES bits, applied
\* bits: function 0..(NW*W-1) -> BOOLEAN (TRUE = ignored); applied: set of operator indices already applied (0-based)
Word(k) == [i \in 0..(W-1) |-> bits[k*W + i]]
Rotr(w, r) == [i \in 0..(W-1) |-> w[(i + r) % W]]
RECURSIVE LeadOnes(_, _)
LeadOnes(w, i) == IF i < 0 \/ ~w[i] THEN 0 ELSE 1 + LeadOnes(w, i - 1)
RECURSIVE TrailOnes(_, _)
TrailOnes(w, i) == IF i >= W \/ ~w[i] THEN 0 ELSE 1 + TrailOnes(w, i + 1)
AllOnes(w) == \A i \in 0..(W-1) : w[i]
WPrev(w, idx) == LeadOnes(Rotr(w, (idx + 1) % W), W - 1)
WNext(w, idx) == TrailOnes(Rotr(w, (idx + 1) % W), 0) + 1
Min(a, b) == IF a < b THEN a ELSE b
RECURSIVE PrevCarry(_)
PrevCarry(seg) == IF seg < 0 THEN 0 ELSE IF AllOnes(Word(seg)) THEN W + PrevCarry(seg - 1) ELSE LeadOnes(Word(seg), W - 1)
RECURSIVE NextCarry(_)
NextCarry(seg) == IF seg >= NW THEN 0 ELSE IF AllOnes(Word(seg)) THEN W + NextCarry(seg + 1) ELSE TrailOnes(Word(seg), 0)
SPrev(idx) == LET seg == idx \div W  bit == idx % W  ones == Min(WPrev(Word(seg), bit), bit + 1)
              IN IF ones = bit + 1 THEN ones + PrevCarry(seg - 1) ELSE ones
SNext(idx) == LET seg == idx \div W  bit == idx % W  ones == Min(WNext(Word(seg), bit), W - bit)
              IN IF ones = W - bit THEN ones + NextCarry(seg + 1) ELSE ones
GetPrev(idx) == IF SingleWord THEN WPrev(Word(0), idx) ELSE SPrev(idx)
GetNext(idx) == IF SingleWord THEN WNext(Word(0), idx) ELSE SNext(idx)

\* abstract meaning: number j is dead iff operator j-1 has been applied
Dead(j) == (j - 1) \in applied
AbsN1(idx) == CHOOSE j \in 0..idx : ~Dead(j) /\ \A k \in (j + 1)..idx : Dead(k)
AbsN2(idx) == CHOOSE j \in (idx + 1)..(N - 1) : ~Dead(j) /\ \A k \in (idx + 1)..(j - 1) : Dead(k)

Init == bits = [i \in 0..(NW*W-1) |-> FALSE] /\ applied = {}
Apply(idx) == /\ idx \notin applied
              /\ LET n2 == idx + GetNext(idx) IN
                 /\ bits' = [bits EXCEPT ![n2] = TRUE]
                 /\ applied' = applied \cup {idx}
Next == \E idx \in 0..(N - 2) : Apply(idx)
\* the property: at every reachable state, for every not-yet-applied operator, the tracker's answers equal the abstract ones
Agree == \A idx \in (0..(N - 2)) \ applied : idx - GetPrev(idx) = AbsN1(idx) /\ idx + GetNext(idx) = AbsN2(idx)
BitsMeanDead == \A j \in 0..(N - 1) : bits[j] = Dead(j)
\* allocation rule of the callers: one word if N <= W, else 1 + N / W words
AllocOk == IF SingleWord THEN N <= W /\ NW = 1 ELSE NW = 1 + N \div W
ASSUME AllocOk
\* every operand is consumed exactly once: the final state has exactly operand 0 alive
Final == (applied = 0..(N - 2)) => \A j \in 1..(N - 1) : bits[j]
=============================================================================
