---------------------------- MODULE ValSem ----------------------------
(* Semantics of the built-in mixed value type `Val<I, F>` as far as the documentation / properties C16 and  *)
(* C17 prescribe it.  Values:                                                                               *)
(*   [k |-> "int",   v |-> n]                         integer of width W (two's complement)                  *)
(*   [k |-> "float", c |-> class, s |-> sign, x |-> exact, q |-> 4*value]   class in nan pinf ninf zero fin;  *)
(*                    x = TRUE iff the value is a multiple of 1/4 of small magnitude, then q = 4*value        *)
(*   [k |-> "bool",  v |-> b]   [k |-> "array", v |-> Seq(float)]   [k |-> "none"]   [k |-> "err"]            *)
(* Req(W, op, args) is what is REQUIRED of the result:                                                       *)
(*   [r |-> "val", val |-> v]     exactly this value (floats: same class, same q if exact)                   *)
(*   [r |-> "err"]                an error value                                                             *)
(*   [r |-> "kind", kind |-> k]   some value of this kind                                                    *)
(*   [r |-> "kinds", kinds |-> S] some value whose kind is in S                                              *)
(*   [r |-> "any"]                anything but a panic                                                       *)
(* each with src |-> "C16" | "C17": which property prescribes it.  All integer arithmetic below is written   *)
(* so that TLC's own 32-bit integers cannot overflow.                                                        *)
EXTENDS Integers, Sequences, FiniteSets

RECURSIVE Pow2(_)
Pow2(n) == IF n = 0 THEN 1 ELSE 2 * Pow2(n - 1)
MaxOf(W) == (Pow2(W - 2) - 1) + Pow2(W - 2)          \* 2^(W-1) - 1 without overflowing at W = 32
MinOf(W) == (-MaxOf(W)) - 1
Abs(x) == IF x < 0 THEN -x ELSE x
Sgn(x) == IF x < 0 THEN -1 ELSE IF x > 0 THEN 1 ELSE 0

IntV(n) == [k |-> "int", v |-> n]
Bool(b) == [k |-> "bool", v |-> b]
None == [k |-> "none"]
Err == [k |-> "err"]
FExact(q) == [k |-> "float", c |-> IF q = 0 THEN "zero" ELSE "fin", s |-> Sgn(q), x |-> TRUE, q |-> q]
FClass(c, s) == [k |-> "float", c |-> c, s |-> s, x |-> FALSE, q |-> 0]
Nan == FClass("nan", 0)   PInf == FClass("pinf", 1)   NInf == FClass("ninf", -1)
QLIM == 4194304            \* |q| <= 2^22 is "small": exact arithmetic on such values stays far below 2^31

ReqVal(v, src) == [r |-> "val", val |-> v, src |-> src]
ReqErr(src) == [r |-> "err", src |-> src]
ReqKind(k, src) == [r |-> "kind", kind |-> k, src |-> src]
ReqKinds(S, src) == [r |-> "kinds", kinds |-> S, src |-> src]
ReqAny == [r |-> "any", src |-> "C17"]
\* an exact float result if it is small enough to have been recorded exactly, else only the kind
ReqF(q, src) == IF Abs(q) <= QLIM THEN ReqVal(FExact(q), src) ELSE ReqKind("float", src)

\* ---- checked integer arithmetic at width W: [ok |-> TRUE, v |-> n] | [ok |-> FALSE] -------------------------
Ok(n) == [ok |-> TRUE, v |-> n]
Ovf == [ok |-> FALSE]
CAdd(W, a, b) == IF (b > 0 /\ a > MaxOf(W) - b) \/ (b < 0 /\ a < MinOf(W) - b) THEN Ovf ELSE Ok(a + b)
CSub(W, a, b) == IF (b < 0 /\ a > MaxOf(W) + b) \/ (b > 0 /\ a < MinOf(W) + b) THEN Ovf ELSE Ok(a - b)
CMul(W, a, b) ==
  IF a = 0 \/ b = 0 THEN Ok(0)
  ELSE IF a = 1 THEN Ok(b) ELSE IF b = 1 THEN Ok(a)
  ELSE IF a = MinOf(W) \/ b = MinOf(W) THEN Ovf                       \* MIN * x overflows for every x not in {0, 1}
  ELSE LET x == Abs(a) y == Abs(b) IN
       IF x <= MaxOf(W) \div y THEN Ok(a * b)
       ELSE \* |a*b| > MAX: only -2^(W-1) = MIN still fits
            IF Sgn(a) # Sgn(b) /\ x % 2 = 0 /\ (x \div 2) <= MaxOf(W) \div y /\ (x \div 2) * y = Pow2(W - 2)
            THEN Ok(MinOf(W)) ELSE Ovf
\* truncating division; MIN / -1 overflows
AbsDivMin(W, y) == LET q == MaxOf(W) \div y IN IF MaxOf(W) - q * y = y - 1 THEN q + 1 ELSE q     \* 2^(W-1) div y, y >= 2
CDiv(W, a, b) ==
  IF b = 0 THEN Ovf
  ELSE IF a = MinOf(W) /\ b = -1 THEN Ovf
  ELSE IF b = MinOf(W) THEN Ok(IF a = MinOf(W) THEN 1 ELSE 0)
  ELSE IF a = MinOf(W) THEN (IF b = 1 THEN Ok(a) ELSE Ok(-Sgn(b) * AbsDivMin(W, Abs(b))))
  ELSE Ok(Sgn(a) * Sgn(b) * (Abs(a) \div Abs(b)))
CRem(W, a, b) ==
  IF b = 0 THEN Ovf
  ELSE IF a = MinOf(W) /\ b = -1 THEN Ovf
  ELSE IF b = MinOf(W) THEN Ok(IF a = MinOf(W) THEN 0 ELSE a)
  ELSE IF a = MinOf(W) THEN LET y == Abs(b) IN Ok(-(((MaxOf(W) % y) + 1) % y))
  ELSE Ok(Sgn(a) * (Abs(a) % Abs(b)))
RECURSIVE CPowPos(_, _, _)
CPowPos(W, a, n) == IF n = 0 THEN Ok(1) ELSE LET r == CPowPos(W, a, n - 1) IN IF r.ok THEN CMul(W, r.v, a) ELSE Ovf
CPow(W, a, n) ==
  IF n < 0 THEN Ovf
  ELSE IF n = 0 THEN Ok(1)
  ELSE IF a = 0 THEN Ok(0) ELSE IF a = 1 THEN Ok(1)
  ELSE IF a = -1 THEN Ok(IF n % 2 = 0 THEN 1 ELSE -1)
  ELSE IF n > W THEN Ovf ELSE CPowPos(W, a, n)
RECURSIVE CFact(_, _)
CFact(W, n) == IF n <= 1 THEN Ok(1) ELSE IF n > 40 THEN Ovf ELSE LET r == CFact(W, n - 1) IN IF r.ok THEN CMul(W, r.v, n) ELSE Ovf

\* ---- two's complement bits ------------------------------------------------------------------------------------
NonNegPart(W, a) == IF a >= 0 THEN a ELSE (a + MaxOf(W)) + 1                 \* low W-1 bits as a number
Bit(W, a, i) == IF i = W - 1 THEN (IF a < 0 THEN 1 ELSE 0) ELSE (NonNegPart(W, a) \div Pow2(i)) % 2
RECURSIVE SumBits(_, _, _)
SumBits(W, f, i) == IF i < 0 THEN 0 ELSE f[i] * Pow2(i) + SumBits(W, f, i - 1)
FromBits(W, f) == SumBits(W, f, W - 2) + (IF f[W - 1] = 1 THEN MinOf(W) ELSE 0)
BitOp(W, a, b, g(_, _)) == FromBits(W, [i \in 0..(W - 1) |-> g(Bit(W, a, i), Bit(W, b, i))])
BOr(x, y) == IF x = 1 \/ y = 1 THEN 1 ELSE 0
BAnd(x, y) == IF x = 1 /\ y = 1 THEN 1 ELSE 0
BXor(x, y) == IF x # y THEN 1 ELSE 0
Shl(W, a, n) == FromBits(W, [i \in 0..(W - 1) |-> IF i >= n THEN Bit(W, a, i - n) ELSE 0])
Shr(W, a, n) == FromBits(W, [i \in 0..(W - 1) |-> IF i + n <= W - 1 THEN Bit(W, a, i + n) ELSE Bit(W, a, W - 1)])

\* ---- floats ------------------------------------------------------------------------------------------------------
IsNum(a) == a.k \in {"int", "float"}
IsFin(f) == f.c \in {"zero", "fin"}
\* integer promoted to float: exact if small
Promote(a) == IF a.k = "float" THEN a
              ELSE IF a.v >= -(QLIM \div 4) /\ a.v <= QLIM \div 4 THEN FExact(4 * a.v) ELSE FClass("fin", Sgn(a.v))
BothExact(a, b) == a.x /\ b.x
FAddReq(a, b, sgnb) ==      \* a + sgnb*b
  LET bc == IF sgnb = 1 THEN b.c ELSE (CASE b.c = "pinf" -> "ninf" [] b.c = "ninf" -> "pinf" [] OTHER -> b.c) IN
  IF a.c = "nan" \/ b.c = "nan" THEN ReqVal(Nan, "C16")
  ELSE IF a.c \in {"pinf", "ninf"} /\ bc \in {"pinf", "ninf"} THEN (IF a.c = bc THEN ReqVal(FClass(a.c, a.s), "C16") ELSE ReqVal(Nan, "C16"))
  ELSE IF a.c \in {"pinf", "ninf"} THEN ReqVal(FClass(a.c, a.s), "C16")
  ELSE IF bc \in {"pinf", "ninf"} THEN ReqVal(FClass(bc, IF bc = "pinf" THEN 1 ELSE -1), "C16")
  ELSE IF BothExact(a, b) THEN ReqF(a.q + sgnb * b.q, "C16")
  ELSE ReqKind("float", "C16")
FMulReq(a, b) ==
  IF a.c = "nan" \/ b.c = "nan" THEN ReqVal(Nan, "C16")
  ELSE IF (a.c \in {"pinf", "ninf"} /\ b.c = "zero") \/ (b.c \in {"pinf", "ninf"} /\ a.c = "zero") THEN ReqVal(Nan, "C16")
  ELSE IF a.c \in {"pinf", "ninf"} \/ b.c \in {"pinf", "ninf"}
       THEN ReqVal(IF a.s * b.s > 0 THEN PInf ELSE NInf, "C16")
  ELSE IF BothExact(a, b) /\ Abs(a.q) <= 32768 /\ Abs(b.q) <= 32768 /\ (a.q * b.q) % 4 = 0 THEN ReqF((a.q * b.q) \div 4, "C16")
  ELSE ReqKind("float", "C16")
FDivReq(a, b) ==
  IF a.c = "nan" \/ b.c = "nan" THEN ReqVal(Nan, "C16")
  ELSE IF a.c \in {"pinf", "ninf"} /\ b.c \in {"pinf", "ninf"} THEN ReqVal(Nan, "C16")
  ELSE IF b.c \in {"pinf", "ninf"} THEN ReqKind("float", "C16")                      \* a signed zero
  ELSE IF b.c = "zero" THEN (IF a.c = "zero" THEN ReqVal(Nan, "C16") ELSE ReqKind("float", "C16"))   \* +-inf, sign of the zero
  ELSE IF a.c \in {"pinf", "ninf"} THEN ReqVal(IF a.s * b.s > 0 THEN PInf ELSE NInf, "C16")
  ELSE IF BothExact(a, b) /\ Abs(a.q) <= 1048576 /\ (4 * Abs(a.q)) % Abs(b.q) = 0
       THEN ReqF(Sgn(a.q) * Sgn(b.q) * ((4 * Abs(a.q)) \div Abs(b.q)), "C16")
  ELSE ReqKind("float", "C16")
\* total order on non-nan floats where decidable: -1, 0, 1 or 2 = unknown
FCmp(a, b) ==
  IF a.c = "nan" \/ b.c = "nan" THEN 3          \* unordered
  ELSE IF a.c = "ninf" THEN (IF b.c = "ninf" THEN 0 ELSE -1)
  ELSE IF a.c = "pinf" THEN (IF b.c = "pinf" THEN 0 ELSE 1)
  ELSE IF b.c = "ninf" THEN 1 ELSE IF b.c = "pinf" THEN -1
  ELSE IF BothExact(a, b) THEN Sgn(a.q - b.q)
  ELSE IF a.s # b.s THEN Sgn(a.s - b.s)
  ELSE 2
FMinMaxReq(a, b, ismin) ==
  LET c == FCmp(a, b) IN
  IF c = 3 \/ c = 2 THEN ReqKind("float", "C16")
  ELSE IF c = 0 THEN ReqKind("float", "C16")                                          \* equal: either (signed zeros)
  ELSE ReqVal(IF (c < 0) = ismin THEN [a EXCEPT !.q = IF a.x THEN a.q ELSE 0] ELSE [b EXCEPT !.q = IF b.x THEN b.q ELSE 0], "C16")

\* numeric comparison across int and float: -1, 0, 1, 2 unknown, 3 unordered
NumCmp(a, b) ==
  IF a.k = "int" /\ b.k = "int" THEN (IF a.v < b.v THEN -1 ELSE IF a.v > b.v THEN 1 ELSE 0)
  ELSE FCmp(Promote(a), Promote(b))
CmpReq(op, a, b) ==
  IF a.k = "bool" /\ b.k = "bool" /\ op \in {"==", "!="} THEN ReqVal(Bool((a.v = b.v) = (op = "==")), "C16")
  ELSE IF ~(IsNum(a) /\ IsNum(b))
       THEN (IF op = "!=" THEN ReqKind("bool", "C16") ELSE ReqVal(Bool(FALSE), "C16"))    \* mismatched kinds, none, errors: false
  ELSE LET c == NumCmp(a, b) IN
       IF c = 2 THEN ReqKind("bool", "C16")
       ELSE IF c = 3 THEN ReqVal(Bool(op = "!="), "C16")
       ELSE ReqVal(Bool(CASE op = "==" -> c = 0 [] op = "!=" -> c # 0 [] op = "<" -> c < 0 [] op = "<=" -> c <= 0
                           [] op = ">" -> c > 0 [] op = ">=" -> c >= 0), "C16")

\* ---- binary operators ---------------------------------------------------------------------------------------------
ArithOps == {"+", "-", "*", "/", "min", "max"}
IntOnlyOps == {"%", "|", "&", "XOR", "<<", ">>"}
CmpOps == {"==", "!=", "<", "<=", ">", ">="}
ErrPropagating == ArithOps \cup IntOnlyOps \cup {"^", "dot", "cross", ".", "atan2"}
IntReq(r, src) == IF r.ok THEN ReqVal(IntV(r.v), src) ELSE ReqErr(src)
ArithIntInt(W, op, a, b) ==
  CASE op = "+" -> IntReq(CAdd(W, a, b), "C16") [] op = "-" -> IntReq(CSub(W, a, b), "C16")
    [] op = "*" -> IntReq(CMul(W, a, b), "C16") [] op = "/" -> IntReq(CDiv(W, a, b), "C16")
    [] op = "min" -> ReqVal(IntV(IF a < b THEN a ELSE b), "C16") [] op = "max" -> ReqVal(IntV(IF a > b THEN a ELSE b), "C16")
ArithFloat(op, a, b) ==
  CASE op = "+" -> FAddReq(a, b, 1) [] op = "-" -> FAddReq(a, b, -1) [] op = "*" -> FMulReq(a, b)
    [] op = "/" -> FDivReq(a, b) [] op = "min" -> FMinMaxReq(a, b, TRUE) [] op = "max" -> FMinMaxReq(a, b, FALSE)
ToBool(c) == CASE c.k = "bool" -> c.v [] c.k = "int" -> c.v # 0 [] OTHER -> TRUE

Req2(W, op, a, b) ==
  IF op \in CmpOps THEN CmpReq(op, a, b)
  ELSE IF op \in ErrPropagating /\ (a.k = "err" \/ b.k = "err") THEN ReqErr("C16")
  ELSE IF op \in ArithOps THEN
    IF a.k = "int" /\ b.k = "int" THEN ArithIntInt(W, op, a.v, b.v)
    ELSE IF op = "/" /\ b.k = "int" /\ b.v = 0 THEN ReqAny                              \* float / IntV(0): not fixed
    ELSE IF IsNum(a) /\ IsNum(b) THEN ArithFloat(op, Promote(a), Promote(b))             \* int meets float: promoted
    ELSE IF (a.k = "array" /\ (IsNum(b) \/ b.k = "array")) \/ (b.k = "array" /\ IsNum(a)) THEN ReqKind("array", "C16")
    ELSE ReqErr("C17")                                                                  \* wrong operand kinds
  ELSE IF op \in IntOnlyOps THEN
    IF a.k = "int" /\ b.k = "int" THEN
      CASE op = "%"   -> IF a.v = MinOf(W) /\ b.v = -1 THEN ReqErr("C17") ELSE IntReq(CRem(W, a.v, b.v), "C16")
        [] op = "|"   -> ReqVal(IntV(BitOp(W, a.v, b.v, BOr)), "C16")
        [] op = "&"   -> ReqVal(IntV(BitOp(W, a.v, b.v, BAnd)), "C16")
        [] op = "XOR" -> ReqVal(IntV(BitOp(W, a.v, b.v, BXor)), "C16")
        [] op = "<<"  -> IF b.v < 0 \/ b.v >= W THEN ReqErr("C16") ELSE ReqVal(IntV(Shl(W, a.v, b.v)), "C16")
        [] op = ">>"  -> IF b.v < 0 \/ b.v >= W THEN ReqErr("C16") ELSE ReqVal(IntV(Shr(W, a.v, b.v)), "C16")
    ELSE ReqErr("C17")
  ELSE IF op = "^" THEN
    IF a.k = "int" /\ b.k = "int" THEN IntReq(CPow(W, a.v, b.v), "C16")
    ELSE IF a.k = "float" /\ b.k \in {"int", "float"} THEN ReqKinds({"float", "err"}, "C16")   \* float^int with a huge exponent: error (C17, width 64)
    ELSE IF a.k = "int" /\ b.k = "float" THEN ReqAny
    ELSE ReqErr("C17")
  ELSE IF op = "atan2" THEN
    IF a.k \in {"int", "float", "bool"} /\ b.k \in {"int", "float", "bool"} THEN ReqKind("float", "C16") ELSE ReqErr("C17")
  ELSE IF op = "dot" THEN
    IF a.k = "array" /\ b.k = "array" THEN (IF Len(a.v) = Len(b.v) THEN ReqKind("float", "C16") ELSE ReqErr("C16")) ELSE ReqErr("C17")
  ELSE IF op = "cross" THEN
    IF a.k = "array" /\ b.k = "array" THEN (IF Len(a.v) = 3 /\ Len(b.v) = 3 THEN ReqKind("array", "C16") ELSE ReqErr("C16")) ELSE ReqErr("C17")
  ELSE IF op = "." THEN
    IF a.k = "array" /\ b.k = "int" THEN (IF b.v >= 0 /\ b.v < Len(a.v) THEN ReqVal(a.v[b.v + 1], "C16") ELSE ReqErr("C16")) ELSE ReqErr("C17")
  ELSE IF op = "if" THEN
    IF b.k = "bool" THEN ReqVal(IF b.v THEN a ELSE None, "C16")
    ELSE IF b.k = "err" THEN ReqErr("C16") ELSE ReqAny
  ELSE IF op = "else" THEN ReqVal(IF a.k = "none" THEN b ELSE a, "C16")
  ELSE IF op \in {"&&", "||"} THEN
    IF a.k = "bool" /\ b.k = "bool" THEN ReqVal(Bool(IF op = "&&" THEN a.v /\ b.v ELSE a.v \/ b.v), "C16") ELSE ReqAny
  ELSE ReqAny

\* ---- unary operators ------------------------------------------------------------------------------------------------
FloatFns == {"sin", "cos", "tan", "asin", "acos", "atan", "sinh", "cosh", "tanh", "asinh", "acosh", "atanh", "floor", "ceil",
             "trunc", "fract", "exp", "sqrt", "cbrt", "round", "ln", "log10", "log2", "log"}
IntFns == {"swap_bytes", "to_le", "to_be"}
Req1(W, op, a) ==
  IF op = "+" THEN ReqVal(a, "C16")
  ELSE IF a.k = "err" THEN ReqErr("C16")
  ELSE IF op \in FloatFns THEN (IF a.k = "float" THEN ReqKind("float", "C16") ELSE ReqErr("C17"))
  ELSE IF op \in IntFns THEN (IF a.k = "int" THEN ReqKind("int", "C16") ELSE ReqErr("C17"))
  ELSE IF op = "-" THEN
    CASE a.k = "int"   -> IF a.v = MinOf(W) THEN ReqErr("C17") ELSE ReqVal(IntV(-a.v), "C16")
      [] a.k = "float" -> IF a.c = "nan" THEN ReqVal(Nan, "C16")
                          ELSE IF a.c = "pinf" THEN ReqVal(NInf, "C16") ELSE IF a.c = "ninf" THEN ReqVal(PInf, "C16")
                          ELSE IF a.x THEN ReqVal(FExact(-a.q), "C16") ELSE ReqKind("float", "C16")
      [] a.k = "array" -> ReqKind("array", "C16")
      [] OTHER -> ReqErr("C17")
  ELSE IF op = "abs" THEN
    CASE a.k = "int"   -> IF a.v = MinOf(W) THEN ReqErr("C17") ELSE ReqVal(IntV(Abs(a.v)), "C16")
      [] a.k = "float" -> IF a.x THEN ReqVal(FExact(Abs(a.q)), "C16") ELSE ReqKind("float", "C16")
      [] OTHER -> ReqErr("C17")
  ELSE IF op = "signum" THEN
    CASE a.k = "int" -> ReqVal(IntV(Sgn(a.v)), "C16") [] a.k = "float" -> ReqKind("float", "C16") [] OTHER -> ReqErr("C17")
  ELSE IF op = "fact" THEN
    IF a.k = "int" THEN (IF a.v < 0 THEN ReqErr("C16") ELSE IntReq(CFact(W, a.v), "C16")) ELSE ReqErr("C17")
  ELSE IF op = "to_int" THEN
    CASE a.k = "int"   -> ReqVal(a, "C16")
      [] a.k = "bool"  -> ReqVal(IntV(IF a.v THEN 1 ELSE 0), "C16")
      [] a.k = "float" -> IF a.c \in {"nan", "pinf", "ninf"} THEN ReqErr("C17")          \* invalid casts
                          ELSE IF a.x THEN LET t == Sgn(a.q) * (Abs(a.q) \div 4) IN
                                           IF t > MaxOf(W) \/ t < MinOf(W) THEN ReqErr("C17") ELSE ReqVal(IntV(t), "C16")
                          ELSE IF "name" \in DOMAIN a /\ a.name \in {"huge", "nhuge", "maxp1", "maxp1h", "minm1"} THEN ReqErr("C17")   \* out of range
                          ELSE IF "name" \in DOMAIN a /\ a.name = "minmh" THEN ReqVal(IntV(MinOf(W)), "C16")              \* MIN - 0.5 truncates to MIN
                          ELSE ReqKinds({"int", "err"}, "C16")
      [] OTHER -> ReqErr("C17")
  ELSE IF op = "to_float" THEN
    CASE a.k = "float" -> ReqVal([a EXCEPT !.q = IF a.x THEN a.q ELSE 0], "C16")
      [] a.k = "int"   -> LET p == Promote(a) IN IF p.x THEN ReqVal(p, "C16") ELSE ReqKind("float", "C16")
      [] a.k = "bool"  -> ReqVal(FExact(IF a.v THEN 4 ELSE 0), "C16")
      [] OTHER -> ReqErr("C17")
  ELSE IF op = "length" THEN (IF a.k = "array" THEN ReqKind("float", "C16") ELSE ReqErr("C17"))
  ELSE ReqAny

\* width 64 (named wide integers): totality everywhere, plus the error values C17 lists
IsWide(a) == a.k = "int" /\ "name" \in DOMAIN a
Req64(c) ==
  IF c.ar = 2 /\ c.op = "^" /\ c.a.k = "float" /\ IsWide(c.b) THEN ReqErr("C17")        \* exponent not representable
  ELSE IF c.ar = 1 /\ c.op \in {"-", "abs"} /\ IsWide(c.a) /\ c.a.name = "min64" THEN ReqErr("C17")
  ELSE IF c.ar = 2 /\ c.op = "%" /\ IsWide(c.a) /\ c.a.name = "min64" /\ c.b = IntV(-1) THEN ReqErr("C17")
  ELSE ReqAny

\* ---- does an observed result meet a requirement? ------------------------------------------------------------------------
FloatMatches(want, got) ==
  got.k = "float" /\ got.c = want.c /\ (want.x => (got.x /\ got.q = want.q))
RECURSIVE ValMatches(_, _)
ValMatches(want, got) ==
  CASE want.k = "float" -> FloatMatches(want, got)
    [] want.k = "int"   -> got.k = "int" /\ got.v = want.v
    [] want.k = "bool"  -> got.k = "bool" /\ got.v = want.v
    [] want.k = "array" -> got.k = "array" /\ Len(got.v) = Len(want.v) /\ \A j \in 1..Len(want.v) : FloatMatches(want.v[j], got.v[j])
    [] OTHER -> got.k = want.k
Meets(req, got) ==
  got.k # "panic" /\
  CASE req.r = "val"   -> ValMatches(req.val, got)
    [] req.r = "err"   -> got.k = "err"
    [] req.r = "kind"  -> got.k = req.kind
    [] req.r = "kinds" -> got.k \in req.kinds
    [] OTHER -> TRUE
=============================================================================
